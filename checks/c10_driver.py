"""C10 drivers (run inside the engine child).

construct_driver: a batch of pattern strings through four channels (microjs.regex.RegExp, regex literal, RegExp(), new RegExp()),
  each script channel inside try/catch (does script code receive a SyntaxError?) and, on request, without (does Python receive a JSError?).
run_driver: one matching run of a catastrophic family with step / stack / poll counting through the guarded hook.
The drivers only record outcome codes and counts; spec/C10.tla judges."""
from harness import wire
from harness.drivers import CLASSIFY_JS


def code_of(out, caught):
    """outcome of one script evaluation -> code"""
    if out["o"] == "value":
        return caught                      # what the script reported: 'ok' or the class its catch clause saw
    if out["o"] == "syntax":
        return "syntax"
    if out["o"] == "jserror":
        return "jserror"                   # reached Python as a JSError (class name not judged)
    if out["o"] == "host":
        return "host:" + str(out.get("type"))
    return out["o"]                        # hang, timelimit, memlimit


def script_channel(api, ctx, got, body, wall):
    del got[:]
    _emits[0] = 0
    out = api.eval_outcome(ctx, body, wall=wall, cap=20_000_000)
    if out["o"] == "value":
        if len(got) != 1:
            return "noresult"
        tag = got[0]
        return "ok" if tag == "ok" else ("SyntaxError" if tag == "SyntaxError" else "caught:" + str(tag))
    return code_of(out, None)


EMIT_CAP = 3_000_000
_emits = [0]


def install_emit_counter(api):
    """Unbounded compilation is detected by counting, not by the clock: every instruction the regex compiler emits is
    counted and the construction is stopped (outcome "hang") beyond EMIT_CAP.  If the internal name is gone the
    wall-clock watchdog of api.run remains."""
    try:
        from microjs.regex.compiler import RegexCompiler
    except Exception:       # noqa: BLE001
        return False
    if getattr(RegexCompiler, "_verif_wrapped", False):
        return True
    orig = getattr(RegexCompiler, "_emit", None)
    if orig is None:
        return False

    def counted(self, *a, **k):
        _emits[0] += 1
        if _emits[0] > EMIT_CAP:
            raise api.HarnessHang("emit cap")
        return orig(self, *a, **k)
    RegexCompiler._emit = counted
    RegexCompiler._verif_wrapped = True
    return True


def construct_batch(case, api):
    """case = {id, items:[{id, p:[units], fl:"", uncaught:bool, wall:float}]}"""
    from microjs.regex import RegExp, RegExpError
    install_emit_counter(api)
    ctx = api.new_context(time_limit=None)
    got = []
    # success = the expression produced a RegExp object (classified on the raw engine value, not by script code)
    ctx.set("__out", lambda *a: (got.append(str(a[0]) if len(a) == 1 else ("ok" if wire.to_wire(a[1]).get("k") == "regex" else "notregexp")), None)[1])
    api.eval_outcome(ctx, CLASSIFY_JS, wall=10.0)
    res = []
    for it in case["items"]:
        p = wire.from_units(it["p"])
        fl = it.get("fl", "")
        wall = float(it.get("wall", 10.0))
        # channel 1: the package API
        _emits[0] = 0
        out = api.run(lambda: RegExp(p, fl), wall=wall, cap=10**9)
        if out["o"] == "value":
            c1 = "ok"
        elif out["o"] == "host" and out.get("type") == "RegExpError":
            c1 = "RegExpError"
        else:
            c1 = code_of(out, None)
        ch = [c1]
        # channel 2: literal (only where the text can be written as a literal: non-empty, no line break, no "/" )
        lit_ok = p != "" and "\n" not in p and "/" not in p and not p.startswith("*")
        if lit_ok and not it.get("nolit"):
            ch.append(script_channel(api, ctx, got, "try { var r = /" + p + "/" + fl + "; __out('v', r); } catch (e) { __out(__cls(e)); }", wall))
        else:
            ch.append("skip")
        ctx.set("P", p)
        ctx.set("F", fl)
        ch.append(script_channel(api, ctx, got, "try { var r = RegExp(P, F); __out('v', r); } catch (e) { __out(__cls(e)); }", wall))
        ch.append(script_channel(api, ctx, got, "try { var r = new RegExp(P, F); __out('v', r); } catch (e) { __out(__cls(e)); }", wall))
        un = []
        if it.get("uncaught"):
            if lit_ok and not it.get("nolit"):
                un.append(script_channel(api, ctx, got, "var r = /" + p + "/" + fl + "; __out('v', r);", wall))
            else:
                un.append("skip")
            un.append(script_channel(api, ctx, got, "var r = RegExp(P, F); __out('v', r);", wall))
            un.append(script_channel(api, ctx, got, "var r = new RegExp(P, F); __out('v', r);", wall))
        res.append({"id": it["id"], "ch": ch, "un": un})
    return res


class Counter:
    """observer installed as api.steps.user: per loop kind totals, per-activation maxima, attempts, stack high-water mark"""
    def __init__(self, api, cap):
        self.api, self.cap = api, cap
        self.steps = {"re": 0, "la": 0, "lb": 0}
        self.maxstep = {"re": 0, "la": 0, "lb": 0}
        self.attempts = 0
        self.maxstack = 0
        self.total = 0

    def __call__(self, kind, vm, pc, sp, stacklen, step_count):
        if kind not in self.steps:
            return
        self.steps[kind] += 1
        self.total += 1
        if step_count + 1 > self.maxstep[kind]:
            self.maxstep[kind] = step_count + 1
        if kind == "re" and step_count == 0:
            self.attempts += 1
        if stacklen > self.maxstack:
            self.maxstack = stacklen
        if self.total > self.cap:
            raise self.api.HarnessHang("count cap")


def run_driver(case, api):
    """case = {id, src, subject:{unit, n, tail}, mode, cap, deadline}"""
    from microjs.regex import RegExp, RegexTimeoutError
    src = wire.from_units(case["src"])
    subject = wire.from_units(case["unit"]) * case["n"] + wire.from_units(case["tail"])
    mode = case["mode"]
    cnt = Counter(api, case["cap"])
    polls = [0]
    out_code, ty = "?", ""
    if mode.startswith("api"):
        deadline = case["deadline"] if mode == "api-deadline" else None

        def cb():
            polls[0] += 1
            return deadline is not None and polls[0] > deadline
        r = RegExp(src, "", poll_callback=cb, poll_interval=1)

        def go():
            api.steps.user = cnt
            try:
                return r.exec(subject)
            finally:
                api.steps.user = None
        out = api.run(go, wall=case.get("wall", 300.0), cap=10**12)
        if out["o"] == "value":
            out_code = "null" if out["pv"] is None else "match"
        elif out["o"] == "hang":
            out_code = "capped" if "count cap" in out.get("why", "") else "hang"
        elif out["o"] == "host" and out.get("type") == "RegexTimeoutError":
            out_code = "timeout"                     # the package's documented way of reporting an aborted run
        elif out["o"] == "host" and out.get("type") == "RegexStackOverflow":
            out_code = "overflow"                    # likewise exported by the package for an exhausted backtrack stack
        else:
            out_code, ty = out["o"], str(out.get("type", ""))
    else:
        T = case["deadline"] if mode == "script-deadline" else None
        ctx = api.new_context(time_limit=(T * 1e-3 if T else None))
        ctx.set("P", src)
        ctx.set("S", subject)

        def go2():
            api.steps.user = cnt
            try:
                return ctx.eval("var R = new RegExp(P); R.test(S);")
            finally:
                api.steps.user = None
        # virtual clock: one tick (1 ms) per hooked step, so the deadline passes after T steps
        out = api.run(go2, wall=case.get("wall", 300.0), cap=10**12, tick=(1e-3 if T else 0.0), deadline=(T * 1e-3 if T else None))
        if out["o"] == "value":
            out_code = "match" if out["pv"] is True else ("null" if out["pv"] is False else "badvalue")
        elif out["o"] == "hang":
            out_code = "capped" if "count cap" in out.get("why", "") else "hang"
        elif out["o"] == "timelimit":
            out_code = "timeout"
        elif out["o"] in ("jserror", "memlimit"):
            out_code, ty = "jserror", str(out.get("name", out["o"]))      # an error of the JSError family
        else:
            out_code, ty = out["o"], str(out.get("type", out.get("name", "")))
    api.steps.user = None
    return {"id": case["id"], "out": out_code, "ty": ty, "attempts": cnt.attempts, "steps": cnt.steps, "maxstep": cnt.maxstep,
            "maxstack": cnt.maxstack, "polls": polls[0], "len": len(subject)}
