------------------------------ MODULE LexerFSM ------------------------------
(* The lexer as a finite state machine over character classes (DESIGN 4.3).           *)
(*   input  : a sequence of character-class names (see Classes)                        *)
(*   state  : mode, position (offset, line, column), start of the token in progress,    *)
(*            emitted tokens [k, line, col], error [k, s0, s1, ...] or none             *)
(*   Step   : one transition; it either consumes the current character or is an         *)
(*            epsilon move (emit the finished token and re-dispatch); `idle` counts      *)
(*            consecutive epsilon moves.  Progress = idle never exceeds 1.               *)
(*   Lex    : run to the end of the input and close the pending token (Finish).         *)
(* Reference = ECMA-262 lexical grammar of the supported fragment (strict mode, no      *)
(* Annex B).  dv = set of named deviations: the engine's as-is rules (DESIGN 2.3).       *)
(* Variable-free library module.                                                        *)
EXTENDS Naturals, Integers, Sequences, FiniteSets, TLC

\* ---- character classes ------------------------------------------------------------------
\*  sp  space / tab            vt  VT / FF (ES white space)        nl  line feed
\*  a   hex letter a,c,d,f     e   e E      b  b B      x  x       u  u      o  o O
\*  g   any other identifier character (g, _, $, Z ...)
\*  0   '0'      1  '1'        7   2..7     9  8 9
\*  .   q Q (the two quote characters)   bs  backslash   /   *
\*  +   + or -      =      <      >      !      &  (& or |)     %  (% or ^)
\*  ~   single-character punctuators  ~ ; , :
\*  (  )  [  ]  {  }          #   a character that starts no token (# @ `)
\*  ud  a decimal digit of another script (Unicode Nd outside ASCII: U+0661 U+0663 U+0967 U+FF11).  ID_Continue but
\*      neither ID_Start nor a DecimalDigit: part of an identifier after its first character, never part of a
\*      numeric literal, an illegal character where a token must start.  Directly after a numeric literal the
\*      text is rejected either way (the engine reports "identifier after number" at the literal; ECMA-262 would end
\*      the literal and reject the character): a num-ident error located from the literal's start on.
Letters   == {"a", "e", "b", "x", "u", "o", "g"}
Digits    == {"0", "1", "7", "9"}
HexDigits == Digits \cup {"a", "e", "b"}
UniDigits == {"ud"}
IdPart    == Letters \cup Digits \cup UniDigits
PunctStart == {"+", "*", "=", "!", "<", ">", "&", "%", "~", "(", ")", "[", "]", "{", "}"}
Classes   == {"sp", "vt", "nl"} \cup Letters \cup Digits \cup UniDigits \cup {".", "q", "Q", "bs", "/", "#"} \cup PunctStart

\* multi-character punctuators: (prefix, class) -> longer punctuator
PunctExt == [pr \in {<<"+", "+">>, <<"+", "=">>, <<"*", "*">>, <<"*", "=">>, <<"=", "=">>, <<"==", "=">>, <<"=", ">">>,
                     <<"!", "=">>, <<"!=", "=">>, <<"<", "<">>, <<"<", "=">>, <<"<<", "=">>, <<">", ">">>, <<">>", ">">>,
                     <<">", "=">>, <<">>", "=">>, <<">>>", "=">>, <<"&", "&">>, <<"&", "=">>, <<"%", "=">>, <<"**", "=">>} |->
   CASE pr = <<"+", "+">> -> "++"   [] pr = <<"+", "=">> -> "+="   [] pr = <<"*", "*">> -> "**"  [] pr = <<"*", "=">> -> "*="
     [] pr = <<"=", "=">> -> "=="   [] pr = <<"==", "=">> -> "===" [] pr = <<"=", ">">> -> "=>"
     [] pr = <<"!", "=">> -> "!="   [] pr = <<"!=", "=">> -> "!=="
     [] pr = <<"<", "<">> -> "<<"   [] pr = <<"<", "=">> -> "<="   [] pr = <<"<<", "=">> -> "<<="
     [] pr = <<">", ">">> -> ">>"   [] pr = <<">>", ">">> -> ">>>" [] pr = <<">", "=">> -> ">="
     [] pr = <<">>", "=">> -> ">>=" [] pr = <<">>>", "=">> -> ">>>="
     [] pr = <<"&", "&">> -> "&&"   [] pr = <<"&", "=">> -> "&="   [] pr = <<"%", "=">> -> "%="  [] pr = <<"**", "=">> -> "**="]

\* named deviations (as-is rules of lexer.py)
LexDevs == {"Dev_UnterminatedComment",     \* _skip_whitespace: end of input inside /* ... is not an error
            "Dev_UnterminatedRegex",       \* read_regex_literal: end of input inside /... is not an error
            "Dev_RegexBackslashNewline",   \* read_regex_literal: backslash + line terminator accepted
            "Dev_NumIdentAdjacent",        \* _read_number: an identifier start / digit directly after a number starts a new token
            "Dev_LeadingZero",             \* _read_number: 0 followed by digits is read as a decimal number
            "Dev_OctalEscape",             \* _read_string: \1..\9 and \0<digit> are identity escapes
            "Dev_WhitespaceVTFF"}          \* _skip_whitespace: VT and FF are not white space
OperandEnd == {"id", "num", "str", "regex", ")", "]", "}"}     \* after these a '/' is a division

NoErr == [k |-> "none", s0 |-> 0, s1 |-> 0, exact |-> FALSE, lenient |-> ""]
St0(userx) == [m |-> "d", pos |-> 0, line |-> 1, col |-> 1, idle |-> 0, mxi |-> 0,
               ts |-> 0, tl |-> 1, tc |-> 1, acc |-> "", cnt |-> 0, q |-> "", cls |-> FALSE,
               rx |-> TRUE, userx |-> userx, out |-> <<>>, err |-> NoErr, fired |-> {}]

\* consume the character c
Adv(st, c) == [st EXCEPT !.pos = @ + 1, !.idle = 0,
                         !.line = IF c = "nl" THEN @ + 1 ELSE @, !.col = IF c = "nl" THEN 1 ELSE @ + 1]
AdvTo(st, c, md) == [Adv(st, c) EXCEPT !.m = md]
\* start a token at the current character and consume it
Begin(st, c, md) == [Adv(st, c) EXCEPT !.m = md, !.ts = st.pos, !.tl = st.line, !.tc = st.col, !.acc = c, !.cnt = 0]
\* emit the token in progress (epsilon move: nothing consumed, mode back to default)
Emit(st, kind) == [st EXCEPT !.m = "d", !.idle = @ + 1, !.rx = kind \notin OperandEnd,
                             !.out = Append(@, [k |-> kind, line |-> st.tl, col |-> st.tc])]
\* emit without the epsilon accounting (token closed by the character that was just consumed, or at the end)
EmitC(st, kind) == [st EXCEPT !.m = "d", !.rx = kind \notin OperandEnd,
                              !.out = Append(@, [k |-> kind, line |-> st.tl, col |-> st.tc])]
\* lexical error: offending token starts at st.ts; detected at the current offset.  len = "" or the name of an
\* opaque deviation: the engine is known to accept some of these texts with another meaning (see LexDevs)
ErrAt(st, c, kind, isexact, len) ==
  [Adv(st, c) EXCEPT !.m = "dead",
                     !.err = [k |-> kind, s0 |-> IF isexact THEN st.pos ELSE st.ts, s1 |-> st.pos, exact |-> isexact, lenient |-> len]]
Fire(st, dev) == [st EXCEPT !.fired = @ \cup {dev}]

\* number followed directly by an identifier start or a digit: ES error, as-is a new token
NumEnd(st, c, dv) ==
  IF c \in IdPart
  THEN IF "Dev_NumIdentAdjacent" \in dv THEN Fire(Emit(st, "num"), "Dev_NumIdentAdjacent")
       ELSE ErrAt(st, c, "num-ident", FALSE, "")
  ELSE Emit(st, "num")

Step(st, c, dv) ==
  LET md == st.m IN
  CASE md = "dead" -> Adv(st, c)
    [] md = "d" ->
         IF c \in {"sp", "nl"} THEN Adv(st, c)
         ELSE IF c = "vt" THEN (IF "Dev_WhitespaceVTFF" \in dv THEN Fire(ErrAt(st, c, "illegal", TRUE, ""), "Dev_WhitespaceVTFF") ELSE Adv(st, c))
         ELSE IF c \in Letters THEN Begin(st, c, "id")
         ELSE IF c = "0" THEN Begin(st, c, "z")
         ELSE IF c \in Digits THEN Begin(st, c, "int")
         ELSE IF c = "." THEN Begin(st, c, "dot")
         ELSE IF c \in {"q", "Q"} THEN [Begin(st, c, "str") EXCEPT !.q = c]
         ELSE IF c = "/" THEN Begin(st, c, "sl")
         ELSE IF c \in PunctStart THEN Begin(st, c, "p")
         ELSE ErrAt(st, c, "illegal", TRUE, "")
    [] md = "id" -> IF c \in IdPart THEN Adv(st, c) ELSE Emit(st, "id")
    [] md = "p" -> IF <<st.acc, c>> \in DOMAIN PunctExt THEN [Adv(st, c) EXCEPT !.acc = PunctExt[<<st.acc, c>>]] ELSE Emit(st, st.acc)
    \* ---- numbers
    [] md = "z" ->
         IF c = "x" THEN AdvTo(st, c, "hex0") ELSE IF c = "b" THEN AdvTo(st, c, "bin0") ELSE IF c = "o" THEN AdvTo(st, c, "oct0")
         ELSE IF c = "." THEN AdvTo(st, c, "idot")
         ELSE IF c = "e" THEN AdvTo(st, c, "exp0")
         ELSE IF c \in Digits THEN (IF "Dev_LeadingZero" \in dv THEN Fire(AdvTo(st, c, "int"), "Dev_LeadingZero")
                                    ELSE ErrAt(st, c, "leading-zero", FALSE, ""))
         ELSE NumEnd(st, c, dv)
    [] md = "int" ->
         IF c \in Digits THEN Adv(st, c)
         ELSE IF c = "." THEN AdvTo(st, c, "idot")
         ELSE IF c = "e" THEN AdvTo(st, c, "exp0")
         ELSE NumEnd(st, c, dv)
    \* decimal integer followed by '.', no fraction digit yet: "1." is a number; "1.name" and "1.e<no digit>" are
    \* errors of the lexical grammar that the engine reads as a property access on the integer (opaque deviation)
    [] md = "idot" ->
         IF c \in Digits THEN AdvTo(st, c, "frac")
         ELSE IF c = "e" THEN AdvTo(st, c, "idote")
         ELSE IF c \in Letters THEN ErrAt(st, c, "num-ident", FALSE, "Dev_NumberDotName")
         ELSE IF c \in UniDigits THEN ErrAt(st, c, "num-ident", FALSE, "")
         ELSE Emit(st, "num")
    [] md = "idote" -> IF c = "+" THEN AdvTo(st, c, "idotes") ELSE IF c \in Digits THEN AdvTo(st, c, "exp")
                       ELSE ErrAt(st, c, "bad-number", FALSE, "Dev_NumberDotName")
    [] md = "idotes" -> IF c \in Digits THEN AdvTo(st, c, "exp") ELSE ErrAt(st, c, "bad-number", FALSE, "Dev_NumberDotName")
    [] md = "dot" -> IF c \in Digits THEN AdvTo(st, c, "frac") ELSE Emit(st, ".")
    [] md = "frac" -> IF c \in Digits THEN Adv(st, c) ELSE IF c = "e" THEN AdvTo(st, c, "exp0") ELSE NumEnd(st, c, dv)
    [] md = "exp0" -> IF c = "+" THEN AdvTo(st, c, "exp1") ELSE IF c \in Digits THEN AdvTo(st, c, "exp") ELSE ErrAt(st, c, "bad-number", FALSE, "")
    [] md = "exp1" -> IF c \in Digits THEN AdvTo(st, c, "exp") ELSE ErrAt(st, c, "bad-number", FALSE, "")
    [] md = "exp" -> IF c \in Digits THEN Adv(st, c) ELSE NumEnd(st, c, dv)
    [] md = "hex0" -> IF c \in HexDigits THEN AdvTo(st, c, "hex") ELSE ErrAt(st, c, "bad-number", FALSE, "")
    [] md = "hex" -> IF c \in HexDigits THEN Adv(st, c) ELSE NumEnd(st, c, dv)
    [] md = "bin0" -> IF c \in {"0", "1"} THEN AdvTo(st, c, "bin") ELSE ErrAt(st, c, "bad-number", FALSE, "")
    [] md = "bin" -> IF c \in {"0", "1"} THEN Adv(st, c) ELSE NumEnd(st, c, dv)
    [] md = "oct0" -> IF c \in {"0", "1", "7"} THEN AdvTo(st, c, "oct") ELSE ErrAt(st, c, "bad-number", FALSE, "")
    [] md = "oct" -> IF c \in {"0", "1", "7"} THEN Adv(st, c) ELSE NumEnd(st, c, dv)
    \* ---- slash: comment, regular expression, division
    [] md = "sl" ->
         IF c = "/" THEN AdvTo(st, c, "lc")
         ELSE IF c = "*" THEN AdvTo(st, c, "bc")
         ELSE IF st.userx /\ st.rx THEN [st EXCEPT !.m = "rx", !.idle = @ + 1, !.cls = FALSE]
         ELSE IF c = "=" THEN [Adv(st, c) EXCEPT !.m = "p", !.acc = "/="]
         ELSE Emit(st, "/")
    [] md = "lc" -> IF c = "nl" THEN AdvTo(st, c, "d") ELSE Adv(st, c)
    [] md = "bc" -> IF c = "*" THEN AdvTo(st, c, "bcs") ELSE Adv(st, c)
    [] md = "bcs" -> IF c = "/" THEN AdvTo(st, c, "d") ELSE IF c = "*" THEN Adv(st, c) ELSE AdvTo(st, c, "bc")
    \* ---- strings
    [] md = "str" ->
         IF c = st.q THEN EmitC(Adv(st, c), "str")
         ELSE IF c = "bs" THEN AdvTo(st, c, "esc")
         ELSE IF c = "nl" THEN ErrAt(st, c, "unterminated-string", FALSE, "")
         ELSE Adv(st, c)
    [] md = "esc" ->
         IF c = "x" THEN AdvTo(st, c, "hx2")
         ELSE IF c = "u" THEN AdvTo(st, c, "u0")
         ELSE IF c = "0" THEN AdvTo(st, c, "esc0")
         ELSE IF c \in Digits THEN (IF "Dev_OctalEscape" \in dv THEN Fire(AdvTo(st, c, "str"), "Dev_OctalEscape")
                                    ELSE ErrAt(st, c, "octal-escape", FALSE, ""))
         ELSE AdvTo(st, c, "str")                                  \* single-character, identity escape, line continuation
    [] md = "esc0" -> IF c \in Digits /\ "Dev_OctalEscape" \notin dv THEN ErrAt(st, c, "octal-escape", FALSE, "")
                      ELSE IF c \in Digits THEN Fire([st EXCEPT !.m = "str", !.idle = @ + 1], "Dev_OctalEscape")
                      ELSE [st EXCEPT !.m = "str", !.idle = @ + 1]
    [] md = "hx2" -> IF c \in HexDigits THEN AdvTo(st, c, "hx1") ELSE ErrAt(st, c, "bad-escape", FALSE, IF c \in {"sp", "nl", "+"} THEN "Dev_LenientEscapeDigits" ELSE "")
    [] md = "hx1" -> IF c \in HexDigits THEN AdvTo(st, c, "str") ELSE ErrAt(st, c, "bad-escape", FALSE, IF c \in {"sp", "nl"} THEN "Dev_LenientEscapeDigits" ELSE "")
    [] md = "u0" -> IF c = "{" THEN AdvTo(st, c, "ub0") ELSE IF c \in HexDigits THEN [AdvTo(st, c, "un") EXCEPT !.cnt = 3]
                    ELSE ErrAt(st, c, "bad-escape", FALSE, IF c \in {"sp", "nl", "+"} THEN "Dev_LenientEscapeDigits" ELSE "")
    [] md = "un" -> IF c \in HexDigits THEN (IF st.cnt = 1 THEN AdvTo(st, c, "str") ELSE [Adv(st, c) EXCEPT !.cnt = @ - 1])
                    ELSE ErrAt(st, c, "bad-escape", FALSE, IF c \in {"sp", "nl"} THEN "Dev_LenientEscapeDigits" ELSE "")
    [] md = "ub0" -> IF c \in HexDigits THEN [AdvTo(st, c, "ub") EXCEPT !.cnt = 1] ELSE ErrAt(st, c, "bad-escape", FALSE, IF c \in {"sp", "nl", "+"} THEN "Dev_LenientEscapeDigits" ELSE "")
    [] md = "ub" -> IF c = "}" THEN AdvTo(st, c, "str")
                    ELSE IF c \in HexDigits THEN (IF st.cnt >= 5 THEN ErrAt(st, c, "bad-escape", FALSE, "Dev_LenientEscapeDigits") ELSE [Adv(st, c) EXCEPT !.cnt = @ + 1])
                    ELSE ErrAt(st, c, "bad-escape", FALSE, IF c \in {"sp", "nl"} THEN "Dev_LenientEscapeDigits" ELSE "")
    \* ---- regular expression literal
    [] md = "rx" ->
         IF c = "nl" THEN ErrAt(st, c, "unterminated-regex", FALSE, "")
         ELSE IF c = "bs" THEN AdvTo(st, c, "rxe")
         ELSE IF c = "[" THEN [Adv(st, c) EXCEPT !.cls = TRUE]
         ELSE IF c = "]" THEN [Adv(st, c) EXCEPT !.cls = FALSE]
         ELSE IF c = "/" /\ ~st.cls THEN AdvTo(st, c, "rxf")
         ELSE Adv(st, c)
    [] md = "rxe" -> IF c = "nl" /\ "Dev_RegexBackslashNewline" \notin dv THEN ErrAt(st, c, "unterminated-regex", FALSE, "")
                     ELSE IF c = "nl" THEN Fire(AdvTo(st, c, "rx"), "Dev_RegexBackslashNewline")
                     ELSE AdvTo(st, c, "rx")
    [] md = "rxf" -> IF c \in IdPart THEN Adv(st, c) ELSE Emit(st, "regex")

\* end of input
Finish(st, dv) ==
  LET md == st.m
      errEnd(kind) == [st EXCEPT !.m = "dead", !.err = [k |-> kind, s0 |-> st.ts, s1 |-> st.pos, exact |-> FALSE, lenient |-> ""]]
  IN
  CASE md \in {"d", "dead"} -> st
    [] md = "lc" -> [st EXCEPT !.m = "d"]
    [] md = "id" -> EmitC(st, "id")
    [] md \in {"z", "int", "idot", "frac", "exp", "hex", "bin", "oct"} -> EmitC(st, "num")
    [] md \in {"idote", "idotes"} -> [st EXCEPT !.m = "dead", !.err = [k |-> "bad-number", s0 |-> st.ts, s1 |-> st.pos, exact |-> FALSE, lenient |-> "Dev_NumberDotName"]]
    [] md = "dot" -> EmitC(st, ".")
    [] md = "p" -> EmitC(st, st.acc)
    [] md = "sl" -> IF st.userx /\ st.rx
                    THEN (IF "Dev_UnterminatedRegex" \in dv THEN Fire(EmitC(st, "regex"), "Dev_UnterminatedRegex") ELSE errEnd("unterminated-regex"))
                    ELSE EmitC(st, "/")
    [] md \in {"hex0", "bin0", "oct0", "exp0", "exp1"} -> errEnd("bad-number")
    [] md \in {"bc", "bcs"} -> IF "Dev_UnterminatedComment" \in dv THEN Fire([st EXCEPT !.m = "d"], "Dev_UnterminatedComment")
                               ELSE errEnd("unterminated-comment")
    [] md \in {"str", "esc", "esc0", "hx2", "hx1", "u0", "un", "ub0", "ub"} -> errEnd("unterminated-string")
    [] md \in {"rx", "rxe"} -> IF "Dev_UnterminatedRegex" \in dv THEN Fire(EmitC(st, "regex"), "Dev_UnterminatedRegex")
                               ELSE errEnd("unterminated-regex")
    [] md = "rxf" -> EmitC(st, "regex")

\* run: at most two transitions per character (one epsilon move, then a consuming one)
RECURSIVE RunFrom(_, _, _)
RunFrom(st, inp, dv) ==
  IF st.pos >= Len(inp) THEN st
  ELSE LET s0 == Step(st, inp[st.pos + 1], dv)
           s1 == IF s0.idle > s0.mxi THEN [s0 EXCEPT !.mxi = s0.idle] ELSE s0 IN
       IF s1.pos > st.pos THEN RunFrom(s1, inp, dv)
       ELSE IF s1.idle > 2 THEN s1                      \* no progress: reported by the Progress law, never reached
       ELSE RunFrom(s1, inp, dv)
Lex(inp, userx, dv) == Finish(RunFrom(St0(userx), inp, dv), dv)

\* ---- position helpers over an input --------------------------------------------------------
NlCount(inp) == Cardinality({ii \in 1..Len(inp) : inp[ii] = "nl"})
\* offset (0-based) of a 1-based (line, col), or -1 if the position is not in the text or at its end
LineStarts(inp) == <<0>> \o [jj \in 1..NlCount(inp) |->
                       CHOOSE off \in 1..Len(inp) : inp[off] = "nl" /\ Cardinality({ii \in 1..off : inp[ii] = "nl"}) = jj]
OffsetOf(inp, line, col) ==
  LET starts == LineStarts(inp) IN
  IF line < 1 \/ line > Len(starts) \/ col < 1 THEN -1
  ELSE LET b0 == starts[line]
           e0 == IF line < Len(starts) THEN starts[line + 1] - 1 ELSE Len(inp)     \* offset of the line's end (its nl, or end of text)
       IN IF b0 + col - 1 > e0 THEN -1 ELSE b0 + col - 1
\* end of the line that contains offset `off` (offset of its nl, or end of text)
EolOf(inp, off) == LET S == {ii \in (off + 1)..Len(inp) : inp[ii] = "nl"} IN
                   IF S = {} THEN Len(inp) ELSE (CHOOSE ii \in S : \A kk \in S : ii <= kk) - 1
\* is the reported position acceptable for the lexical error `er` ?  (exact for an illegal character;
\* otherwise anywhere from the start of the offending token to just after the end of the line on
\* which the error is detected)
ErrPosOK(inp, er, line, col) ==
  LET off == OffsetOf(inp, line, col) IN
  /\ off >= 0
  /\ IF er.exact THEN off = er.s1 ELSE off >= er.s0 /\ off <= EolOf(inp, er.s1) + 1
\* position sanity alone: the position is inside the text or at its end
PosSane(inp, line, col) == OffsetOf(inp, line, col) >= 0

\* ---- laws of the machine (checked by TLC for every input up to the bound, see C04) ----------
\* every token starts inside the text, tokens are ordered, line / column agree with the text
TokensSane(inp, st) ==
  /\ \A ti \in 1..Len(st.out) : OffsetOf(inp, st.out[ti].line, st.out[ti].col) >= 0
  /\ \A ti \in 1..(Len(st.out) - 1) :
        OffsetOf(inp, st.out[ti].line, st.out[ti].col) < OffsetOf(inp, st.out[ti + 1].line, st.out[ti + 1].col)
ResultSane(inp, st) ==
  /\ st.pos = Len(inp)                                                \* every character consumed exactly once
  /\ st.mxi <= 1                                                      \* progress: at most one epsilon move between two characters
  /\ st.line = 1 + NlCount(inp)
  /\ OffsetOf(inp, st.line, st.col) = Len(inp)                        \* the final position is the end of the text
  /\ TokensSane(inp, st)
  /\ (st.err.k # "none" => st.err.s0 >= 0 /\ st.err.s0 <= st.err.s1 /\ st.err.s1 <= Len(inp) /\ st.m = "dead")
  /\ (st.err.k = "none" => st.m = "d")
\* the named deviations are the only differences between the as-is machine and the reference
DevsExplain(inp, userx) ==
  LET rf == Lex(inp, userx, {})  ai == Lex(inp, userx, LexDevs) IN
  ai.fired = {} => (ai.out = rf.out /\ ai.err = rf.err)

\* ---- concrete text: code unit -> class (only the characters the generators use; anything else is "?") ----
ClassOfUnit(cu) ==
  CASE cu \in {32, 9} -> "sp"
    [] cu \in {11, 12} -> "vt"
    [] cu = 10 -> "nl"
    [] cu \in {97, 99, 100, 102, 65, 67, 68, 70} -> "a"
    [] cu \in {101, 69} -> "e"
    [] cu \in {98, 66} -> "b"
    [] cu \in {120, 88} -> "x"
    [] cu = 117 -> "u"
    [] cu \in {111, 79} -> "o"
    [] (cu >= 103 /\ cu <= 122) \/ (cu >= 71 /\ cu <= 90 /\ cu # 88) \/ cu \in {95, 36} -> "g"     \* other letters (not X), _ $
    [] cu = 48 -> "0"
    [] cu = 49 -> "1"
    [] cu >= 50 /\ cu <= 55 -> "7"
    [] cu \in {56, 57} -> "9"
    [] cu = 46 -> "."
    [] cu = 39 -> "q"
    [] cu = 34 -> "Q"
    [] cu = 92 -> "bs"
    [] cu = 47 -> "/"
    [] cu = 42 -> "*"
    [] cu \in {43, 45} -> "+"
    [] cu = 61 -> "="
    [] cu = 60 -> "<"
    [] cu = 62 -> ">"
    [] cu = 33 -> "!"
    [] cu \in {38, 124} -> "&"
    [] cu \in {37, 94} -> "%"
    [] cu \in {126, 59, 44, 58, 63} -> "~"
    [] cu = 40 -> "("
    [] cu = 41 -> ")"
    [] cu = 91 -> "["
    [] cu = 93 -> "]"
    [] cu = 123 -> "{"
    [] cu = 125 -> "}"
    [] cu \in {35, 64, 96} -> "#"
    [] cu \in {1633, 1635, 2407, 65297} -> "ud"                                                   \* U+0661 U+0663 U+0967 U+FF11
    [] OTHER -> "?"
ClassesOfUnits(us) == [ui \in 1..Len(us) |-> ClassOfUnit(us[ui])]
\* a text mixes + with - (or & with |, % with ^) : the class machine would fuse what the real lexer keeps apart
MixedPunct(us) == \E ui \in 1..(Len(us) - 1) :
                     \/ {us[ui], us[ui + 1]} = {43, 45} \/ {us[ui], us[ui + 1]} = {38, 124} \/ {us[ui], us[ui + 1]} = {37, 94}
                     \/ (us[ui] = 37 /\ us[ui + 1] = 61 /\ FALSE)
TextSupported(us) == ~MixedPunct(us) /\ ~(\E ui \in 1..(Len(us) - 1) : us[ui] = 63 /\ us[ui + 1] \in {63, 46}) /\ ~(\E ui \in 1..(Len(us) - 1) : us[ui] = 92 /\ us[ui + 1] = 88) /\ \A ui \in 1..Len(us) : ClassOfUnit(us[ui]) # "?"
=============================================================================
