-------------------------------- MODULE C07 --------------------------------
(* C07 - exceptions unwind to the right handler; finally runs exactly once.                    *)
(*   Families (ASTs, enumerated by TLC, run on the reference machine MiniJS with FinallyOnce,    *)
(*   TryAccounting, KontWF checked on every state):                                              *)
(*     TS  throw site x handler placement x intermediate try x expression context               *)
(*     FO  one try statement in a loop in a function: what the try block, the catch clause and   *)
(*         the finally block do (normal, break, continue, return, throw, labelled exits); loop   *)
(*         kind (for, while, do-while, for-in, for-of); inside an outer try / for-of / for-in /  *)
(*         switch                                                                                *)
(*     ER  error objects of runtime errors: constructor, Error, name, line / column              *)
(*     EL  where the faulting node stands inside its statement                                   *)
(*     RP  n rounds of throw-and-catch in ONE evaluation (site pair x handler placement x        *)
(*         intermediate try x n, n up to more than the engine's nesting budget)                  *)
(*     ML  several throw sites in same-named functions of ONE evaluation, each with its location *)
(*     NB  (sites of TS) more built-ins that run script code: filter / some / every / find /      *)
(*         findIndex / reduce callbacks, function replacers of replace / replaceAll with a       *)
(*         string search value, valueOf / toString run by `+`                                    *)
(*     CT  what raises (7 kinds) in the try block / catch clause / finally block of one try      *)
(*         statement x what else the clauses contain (calls of log, or variable traffic only)    *)
(*   Judge: as C05 (MiniJS next to the engine's log and outcome); ShiftJudge: the same program   *)
(*   rendered k lines lower and k columns to the right reports locations shifted by exactly k.   *)
EXTENDS C05

\* ======================= family TS ===============================================================
\* (round 4) sites NB: the other built-ins that run script code.  The script function throws in its first call (MiniJS models
\* these built-ins up to that call); what differs from forEach / map is the route by which the engine reaches the function
\* (each built-in has its own call site) and what the built-in would go on to do if it were not abandoned (further elements,
\* further occurrences of the search string, the rest of the operator).
NBArrSites == {"filter", "some", "every", "find", "findIndex", "reduce"}
NBSites == NBArrSites \cup {"replacefn", "replaceallfn", "valueof", "tostring"}
Sites == {"throwstmt", "throwerr", "nullmember", "undefmember", "callnonfn", "unknownid", "methundef", "masgnull",
          "cbthrow", "mapthrow", "nestednative", "cbruntime", "getter", "setter", "getterrt", "sortcmp"} \cup NBSites
\* body of the function f that contains the throw site (node 1 is the faulting node)
ThrowingCb(x) == Fun("", <<"x">>, <<SLog(Var("x"))>> \o x)
SiteBody(st) ==
  CASE st = "throwstmt" -> <<SLog(EStr("s")), SThrowAt(1, I(7)), SLog(EStr("not reached"))>>
    [] st = "throwerr" -> <<SLog(EStr("s")), SThrowAt(1, New(Var("RangeError"), <<EStr("boom")>>)), SLog(EStr("not reached"))>>
    [] st = "nullmember" -> <<SVar1("u", ENull), SLog(EStr("s")), SRet(DotAt(1, Var("u"), "x"))>>
    [] st = "undefmember" -> <<SVar1("u", NoE), SLog(EStr("s")), SRet(MemAt(1, Var("u"), EStr("x")))>>
    [] st = "callnonfn" -> <<SVar1("u", I(5)), SLog(EStr("s")), SRet(CallAt(1, Var("u"), <<I(1)>>))>>
    [] st = "unknownid" -> <<SLog(EStr("s")), SRet(Plus(I(1), VarAt(1, "zz")))>>
    [] st = "methundef" -> <<SVar1("u", Obj(<<"a">>, <<I(1)>>)), SLog(EStr("s")), SRet(CallAt(1, Dot(Var("u"), "nope"), <<I(1)>>))>>
    [] st = "masgnull" -> <<SVar1("u", ENull), SLog(EStr("s")), SExpr(MAsg(DotAt(1, Var("u"), "x"), I(3))), SRet(I(1))>>
    [] st = "cbthrow" -> <<SExpr(Call(Dot(Arr(<<I(1), I(2), I(3)>>), "forEach"),
                                      <<ThrowingCb(<<SIf(Bin("==", Var("x"), I(2)), SBlock(<<SThrowAt(1, I(8))>>), NoS)>>)>>)), SRet(I(1))>>
    [] st = "mapthrow" -> <<SRet(Dot(Call(Dot(Arr(<<I(1), I(2), I(3)>>), "map"),
                                          <<ThrowingCb(<<SIf(Bin("==", Var("x"), I(2)), SBlock(<<SThrowAt(1, New(Var("Error"), <<EStr("m")>>))>>), NoS), SRet(Var("x"))>>)>>), "length"))>>
    [] st = "nestednative" -> <<SExpr(Call(Dot(Arr(<<I(1), I(2)>>), "forEach"),
                                           <<ThrowingCb(<<SExpr(Call(Dot(Arr(<<I(5), I(6)>>), "map"), <<ThrowingCb(<<SThrowAt(1, Plus(Var("x"), I(10)))>>)>>))>>)>>)), SRet(I(1))>>
    [] st = "getter" -> <<SVar1("u", ObjK(<<"a", "p">>, <<"init", "get">>, <<I(1), Fun("", <<>>, <<SLog(EStr("get")), SThrowAt(1, I(4))>>)>>)), SLog(EStr("s")),
                          SRet(Plus(I(1), Dot(Var("u"), "p")))>>
    [] st = "setter" -> <<SVar1("u", ObjK(<<"p", "a">>, <<"set", "init">>, <<Fun("", <<"v">>, <<SLog(Var("v")), SThrowAt(1, New(Var("TypeError"), <<EStr("ro")>>))>>), I(1)>>)),
                          SLog(EStr("s")), SExpr(MAsg(Dot(Var("u"), "p"), I(3))), SRet(I(1))>>
    [] st = "getterrt" -> <<SVar(<<Decl("n", ENull), Decl("u", ObjK(<<"p">>, <<"get">>, <<Fun("", <<>>, <<SLog(EStr("get")), SRet(DotAt(1, Var("n"), "x"))>>)>>))>>),
                            SRet(Mem(Var("u"), EStr("p")))>>
    [] st = "sortcmp" -> <<SLog(EStr("s")), SExpr(Call(Dot(Arr(<<I(3), I(1), I(2)>>), "sort"), <<Fun("", <<"a", "b">>, <<SLog(EStr("cmp")), SThrowAt(1, EStr("no order"))>>)>>)), SRet(I(1))>>
    [] st = "cbruntime" -> <<SVar1("u", NoE), SExpr(Call(Dot(Arr(<<I(1), I(2)>>), "forEach"), <<ThrowingCb(<<SExpr(CallAt(1, Var("u"), <<>>))>>)>>)), SRet(I(1))>>
    [] st \in NBArrSites -> <<SLog(EStr("s")), SVar1("u", Call(Dot(Arr(<<I(1), I(2), I(3)>>), st),
                                                               <<ThrowingCb(<<SThrowAt(1, I(8))>>)>> \o (IF st = "reduce" THEN <<I(0)>> ELSE <<>>))),
                              SLog(EStr("not reached")), SRet(I(1))>>
    [] st \in {"replacefn", "replaceallfn"} ->
         <<SLog(EStr("s")), SRet(Plus(Call(Dot(EStr("a-b-c-d"), IF st = "replacefn" THEN "replace" ELSE "replaceAll"),
                                           <<EStr("-"), ThrowingCb(<<SThrowAt(1, New(Var("RangeError"), <<EStr("r")>>))>>)>>), EStr("!")))>>
    [] st = "valueof" -> <<SVar1("u", Obj(<<"valueOf">>, <<Fun("", <<>>, <<SLog(EStr("conv")), SThrowAt(1, I(4))>>)>>)), SLog(EStr("s")),
                           SRet(Plus(I(1), Var("u")))>>
    [] st = "tostring" -> <<SVar1("u", Obj(<<"a", "toString">>, <<I(1), Fun("", <<>>, <<SLog(EStr("conv")), SThrowAt(1, EStr("ts"))>>)>>)), SLog(EStr("s")),
                            SRet(Plus(Var("u"), EStr("!")))>>
\* try statements between the site and the handler (inside f)
Mids == {"none", "finally", "rethrow", "thrownew", "catchfinally", "finally2", "swallow"}
Wrap(md, body) ==
  LET fin(n) == SBlock(<<SLog(EStr(n))>>) IN
  CASE md = "none" -> body
    [] md = "finally" -> <<STry(SBlock(body), "e1", NoS, fin("F"))>>
    [] md = "rethrow" -> <<STry(SBlock(body), "e1", SBlock(<<SLog(EStr("C")), SThrow(Var("e1"))>>), NoS)>>
    [] md = "thrownew" -> <<STry(SBlock(body), "e1", SBlock(<<SLog(EStr("C")), SThrow(EStr("again"))>>), fin("F"))>>
    [] md = "catchfinally" -> <<STry(SBlock(body), "e1", SBlock(<<SLog(EStr("C")), SThrow(Var("e1"))>>), fin("F"))>>
    [] md = "finally2" -> <<STry(SBlock(<<STry(SBlock(body), "e1", NoS, fin("F1"))>>), "e2", NoS, fin("F2"))>>
    [] md = "swallow" -> <<STry(SBlock(body), "e1", SBlock(<<SLog(EStr("C"))>>), fin("F")), SRet(I(2))>>
\* what the handler logs about the thrown value: its type, and its name (errors) or itself (primitives)
Describe(x) == <<SLog(TypeOf(Var(x))),
                 SLog(Cond(Bin("==", TypeOf(Var(x)), EStr("object")), Dot(Var(x), "name"), Var(x)))>>
Handlers == {"same", "caller", "caller2", "native", "none"}
TSProg(c) ==
  LET fdef == SFun("f", <<>>, Wrap(c.md, SiteBody(c.st)))
      gdef == SFun("g", <<"a", "b", "c">>, <<SRet(Plus(Plus(Var("a"), Var("b")), Var("c")))>>)
      use == UseSite(c.pl)
      catch == SBlock(<<SLog(EStr("H"))>> \o Describe("e9"))
      guarded(ss) == <<STry(SBlock(ss), "e9", catch, NoS)>>
      after == <<SLog(Plus(I(1), Call(Var("g"), <<I(1), I(2), I(3)>>))), SLog(I(50))>>
  IN CASE c.h = "same" -> Prog(<<SVar1("x", I(0)), gdef, fdef>> \o guarded(use) \o after)
       [] c.h = "caller" -> Prog(<<SVar1("x", I(0)), gdef, fdef, SFun("h", <<>>, guarded(use) \o <<SRet(I(3))>>),
                                  SLog(Plus(I(100), Call(Var("h"), <<>>)))>> \o after)
       [] c.h = "caller2" -> Prog(<<SVar1("x", I(0)), gdef, fdef, SFun("h", <<>>, use \o <<SRet(I(3))>>)>>
                                  \o guarded(<<SLog(Plus(I(100), Call(Var("h"), <<>>)))>>) \o after)
       [] c.h = "native" -> Prog(<<SVar1("x", I(0)), gdef, fdef>>
                                 \o guarded(<<SExpr(Call(Dot(Arr(<<I(1), I(2)>>), "forEach"), <<Fun("", <<"q">>, <<SLog(Plus(Var("q"), I(200)))>> \o use)>>))>>) \o after)
       [] c.h = "none" -> Prog(<<SVar1("x", I(0)), gdef, fdef>> \o use \o after)
TSAll == [st : Sites, md : Mids, h : Handlers, pl : {"stmt", "left", "right", "arg", "elem", "prop", "cond", "asgsrc", "varinit", "retval"}]
\* quick, sites NB: every site with every handler placement; with a pending operand below the call and a finally on the way; as an
\* argument with a rethrowing catch clause on the way
NBQuickSel(c) ==
  \/ (c.pl = "stmt" /\ c.md = "none")
  \/ (c.pl = "left" /\ c.md = "finally" /\ c.h = "caller")
  \/ (c.pl = "arg" /\ c.md = "rethrow" /\ c.h = "same")
TSQuickSel(c) ==
  IF c.st \in NBSites THEN NBQuickSel(c) ELSE
  \/ (c.pl = "stmt" /\ c.md \in {"none", "finally", "rethrow", "catchfinally"})
  \/ (c.pl \in {"left", "arg"} /\ c.md \in {"none", "thrownew", "swallow"} /\ c.h \in {"same", "caller", "native"})
  \/ (c.st \in {"throwstmt", "nullmember", "cbthrow", "getter", "sortcmp"} /\ c.md = "none" /\ c.h \in {"same", "native"})
  \/ (c.st = "throwstmt" /\ c.pl \in {"right", "cond"})
TSCases == {c \in TSAll : ~Quick \/ TSQuickSel(c)}

\* ======================= family FO ===============================================================
Acts == {"none", "break", "continue", "return", "throw", "breakL", "continueL"}
ActStmt(a, v) ==
  CASE a = "break" -> SBreak("") [] a = "continue" -> SCont("") [] a = "breakL" -> SBreak("L") [] a = "continueL" -> SCont("L")
    [] a = "return" -> SRet(I(v)) [] a = "throw" -> SThrow(I(v))
When0(a, v) == IF a \in {"none", "absent"} THEN <<>> ELSE <<SIf(Bin("==", Var("i"), I(0)), SBlock(<<ActStmt(a, v)>>), NoS)>>
\* the loop that holds the try statement (two rounds, i = 0, 1; labelled L).  for-in / for-of keep their iterator, and a
\* switch its discriminant, as an operand while the body runs: a jump out of a finally block that discards a pending
\* completion must leave exactly those in place
FOLoops == {"for", "while", "dowhile", "forin", "forof"}
FOOuters == {"none", "finally", "catch", "forof", "forin", "switch"}
FONewOuters == {"forof", "forin", "switch"}
FOLoop(lk, body) ==
  LET start == SVar1("i", Bin("-", I(0), I(1)))
      step == <<Set("i", Plus(Var("i"), I(1)))>>
  IN CASE lk = "for" -> <<SLabel("L", SFor(SVar1("i", I(0)), Bin("<", Var("i"), I(2)), Upd("++", FALSE, "i"), SBlock(body)))>>
       [] lk = "while" -> <<start, SLabel("L", SWhile(Bin("<", Var("i"), I(1)), SBlock(step \o body)))>>
       [] lk = "dowhile" -> <<start, SLabel("L", SDo(SBlock(step \o body), Bin("<", Var("i"), I(1))))>>
       [] lk = "forin" -> <<start, SLabel("L", SForIn(TRUE, "k", Obj(<<"a", "b">>, <<I(1), I(2)>>), SBlock(step \o <<SLog(Var("k"))>> \o body)))>>
       [] lk = "forof" -> <<start, SLabel("L", SForOf(TRUE, "v", Arr(<<I(7), I(8)>>), SBlock(step \o <<SLog(Var("v"))>> \o body)))>>
FOProg(c) ==
  LET tryb == SBlock(<<SLog(EStr("t"))>> \o When0(c.tb, 1) \o <<SLog(EStr("t2"))>>)
      catb == IF c.cb = "absent" THEN NoS ELSE SBlock(<<SLog(EStr("c")), SLog(Var("e"))>> \o When0(c.cb, 2) \o <<SLog(EStr("c2"))>>)
      finb == IF c.fb = "absent" THEN NoS ELSE SBlock(<<SLog(EStr("f"))>> \o When0(c.fb, 3) \o <<SLog(EStr("f2"))>>)
      loop == FOLoop(c.lk, <<SLog(Var("i")), STry(tryb, "e", catb, finb), SLog(EStr("a"))>>)
      inner == loop \o <<SLog(EStr("z"))>>
      body == CASE c.ou = "none" -> inner
                [] c.ou = "finally" -> <<STry(SBlock(inner), "e2", NoS, SBlock(<<SLog(EStr("F2"))>>))>>
                [] c.ou = "catch" -> <<STry(SBlock(inner), "e2", SBlock(<<SLog(EStr("C2")), SLog(Var("e2"))>>), SBlock(<<SLog(EStr("F2"))>>))>>
                [] c.ou = "forof" -> <<SForOf(TRUE, "w", Arr(<<I(4), I(5)>>), SBlock(<<SLog(Var("w"))>> \o inner \o <<SLog(Var("w"))>>))>>
                [] c.ou = "forin" -> <<SForIn(TRUE, "q", Obj(<<"x", "y">>, <<I(1), I(2)>>), SBlock(<<SLog(Var("q"))>> \o inner \o <<SLog(Var("q"))>>))>>
                [] c.ou = "switch" -> <<SSwitch(I(2), <<Case(I(1), <<SLog(EStr("s1"))>>), Case(I(2), inner), Case(I(3), <<SLog(EStr("s3"))>>)>>)>>
  IN Prog(<<SFun("f", <<>>, body \o <<SLog(EStr("e")), SRet(I(5))>>),
            STry(SBlock(<<SLog(Plus(I(100), Call(Var("f"), <<>>)))>>), "e9", SBlock(<<SLog(EStr("X")), SLog(Var("e9"))>>), NoS),
            SLog(I(50))>>)
FOAll == [tb : Acts, cb : Acts \cup {"absent"}, fb : Acts \cup {"absent"}, ou : FOOuters, lk : FOLoops]
FOValid(c) == ~(c.cb = "absent" /\ c.fb = "absent")
\* quick: the sub-grid of the first rounds for the plain for loop; every other loop kind with the exits that matter for operands
\* (throw / return / continue out of the try block, catch absent / throwing / catching before a jump, finally absent / normal / break / continue);
\* every new outer construct around the two iterating loops and around the plain loop with a pending completion overridden
FOQuickSel(c) ==
  \/ (c.lk = "for" /\ c.ou = "none" /\ {c.tb, c.cb, c.fb} \cap {"breakL", "continueL"} = {})
  \/ (c.lk = "for" /\ c.ou \in {"finally", "catch"} /\ c.tb \in {"throw", "return", "break"} /\ c.cb \in {"absent", "none", "throw"} /\ c.fb \in {"absent", "none", "continue"})
  \/ (c.lk = "for" /\ c.ou = "none" /\ c.tb \in {"breakL", "continueL"} /\ c.cb = "absent" /\ c.fb = "none")
  \/ (c.lk # "for" /\ c.ou = "none" /\ c.tb \in {"throw", "return", "continue"} /\ c.cb \in {"absent", "throw"} /\ c.fb \in {"absent", "none", "break", "continue"})
  \/ (c.lk # "for" /\ c.ou = "none" /\ c.tb = "throw" /\ c.cb = "none" /\ c.fb \in {"break", "continue"})
  \/ (c.lk \in {"forin", "forof"} /\ c.ou \in FONewOuters /\ c.tb \in {"throw", "return"} /\ c.cb = "absent" /\ c.fb \in {"break", "continue"})
  \/ (c.lk \in {"forin", "forof"} /\ c.ou \in FONewOuters /\ c.tb = "throw" /\ c.cb = "none" /\ c.fb \in {"break", "continue"})
  \/ (c.lk = "for" /\ c.ou \in FONewOuters /\ c.tb \in {"throw", "return"} /\ c.cb = "absent" /\ c.fb \in {"break", "continueL"})
FOSel(c) == FOValid(c) /\ (~Quick \/ FOQuickSel(c))
FOCases == {c \in FOAll : FOSel(c)}
\* law of the sub-grid (evaluated on the selection predicate, the set is not rebuilt): every loop kind and every outer construct
\* occurs, every iterating loop inside every new outer construct; in every loop kind, and in an iterating loop inside every new
\* outer construct, a pending throw and a pending return are overridden by break and by continue in the finally block of a try
\* statement without catch clause; in every loop kind a throw is caught and the catch clause throws into a finally block that jumps
FOCase(tb, cb, fb, ou, lk) == [tb |-> tb, cb |-> cb, fb |-> fb, ou |-> ou, lk |-> lk]
FOGridLaw ==
  /\ \A lk \in FOLoops : \E tb \in Acts, fb \in Acts : FOSel(FOCase(tb, "none", fb, "none", lk))
  /\ \A ou \in FOOuters : \E tb \in Acts, cb \in {"absent", "none"}, fb \in Acts : FOSel(FOCase(tb, cb, fb, ou, "for"))
  /\ \A lk \in FOLoops, tb \in {"throw", "return"}, fb \in {"break", "continue"} : FOSel(FOCase(tb, "absent", fb, "none", lk))
  /\ \A lk \in {"forin", "forof"}, ou \in FONewOuters, tb \in {"throw", "return"}, fb \in {"break", "continue"} : FOSel(FOCase(tb, "absent", fb, ou, lk))
  /\ \A lk \in FOLoops, fb \in {"break", "continue"} : FOSel(FOCase("throw", "throw", fb, "none", lk))
ASSUME FOGridLaw

\* ======================= family ER: error objects ================================================
ERSites == {"nullmember", "undefmember", "callnonfn", "unknownid", "methundef", "masgnull", "throwerr", "throwtype", "throwplain", "rethrown"}
ERClass(st) == CASE st \in {"nullmember", "undefmember", "callnonfn", "methundef", "masgnull", "throwtype"} -> "TypeError"
                 [] st = "unknownid" -> "ReferenceError" [] st = "throwerr" -> "RangeError" [] OTHER -> "Error"
ERSite(st) ==
  CASE st = "throwtype" -> <<SThrowAt(1, New(Var("TypeError"), <<EStr("tt")>>))>>
    [] st = "throwplain" -> <<SVar1("er", New(Var("Error"), <<EStr("pp")>>)), SLog(EStr("made")), SThrowAt(1, Var("er"))>>
    [] st = "rethrown" -> <<STry(SBlock(<<SThrowAt(2, New(Var("Error"), <<EStr("rr")>>))>>), "e1", SBlock(<<SLog(Dot(Var("e1"), "lineNumber")), SThrowAt(1, Var("e1"))>>), NoS)>>
    [] OTHER -> SiteBody(st)
Report(x, cls) == <<SLog(Bin("instanceof", Var(x), Var(cls))), SLog(Bin("instanceof", Var(x), Var("Error"))),
                    SLog(Bin("instanceof", Var(x), Var(IF cls = "TypeError" THEN "RangeError" ELSE "TypeError"))),
                    SLog(Dot(Var(x), "name")), SLog(TypeOf(Dot(Var(x), "message"))),
                    SLog(Dot(Var(x), "lineNumber")), SLog(Dot(Var(x), "columnNumber"))>>
ERProg(c) ==
  LET cls == ERClass(c.st)
      site == ERSite(c.st)
      catch == SBlock(Report("e9", cls))
  IN CASE c.pos = "top" -> Prog(<<SLog(I(0)), STry(SBlock(<<SIf(EBool(TRUE), SBlock(site), NoS)>>), "e9", catch, NoS), SLog(I(50))>>)
       [] c.pos = "fn" -> Prog(<<SFun("f", <<>>, <<SLog(I(0))>> \o site \o <<SRet(I(1))>>),
                                 STry(SBlock(<<SLog(Call(Var("f"), <<>>))>>), "e9", catch, NoS), SLog(I(50))>>)
       [] c.pos = "infn" -> Prog(<<SFun("f", <<>>, <<SLog(I(0)), STry(SBlock(site), "e9", catch, NoS), SRet(I(1))>>),
                                   SLog(Call(Var("f"), <<>>)), SLog(I(50))>>)
       [] c.pos = "cb" -> Prog(<<STry(SBlock(<<SExpr(Call(Dot(Arr(<<I(1)>>), "forEach"), <<Fun("", <<"q">>, <<SLog(Var("q"))>> \o site)>>))>>), "e9", catch, NoS),
                                 SLog(I(50))>>)
       [] c.pos = "nested" -> Prog(<<SFun("f", <<>>, <<SRet(Fun("", <<>>, site \o <<SRet(I(1))>>))>>),
                                     STry(SBlock(<<SLog(Call(Call(Var("f"), <<>>), <<>>))>>), "e9", catch, NoS), SLog(I(50))>>)
       [] c.pos = "uncaught" -> Prog(<<SLog(I(0))>> \o site \o <<SLog(I(50))>>)
ERCases == [st : ERSites, pos : {"top", "fn", "infn", "cb", "nested", "uncaught"}]

\* ======================= family EL: where the faulting node stands inside its statement ==============
\* The statement that raises contains, BEFORE the faulting node, code that has statements (= source locations) of its own:
\*   pre  : nothing (control) | a function literal with a body of two statements (function expression, named function
\*          expression, arrow, arrow inside an arrow, getter / setter of an object literal) | the body of the loop in whose
\*          head the node stands (condition of do-while, update of for; second evaluation of a while / for test)
\*   site : what raises (six runtime error kinds, a throw statement whose operand holds the literal, a member read on the
\*          result of a native that has just RUN the literal as a callback)
\*   stk  : the statement the expression sits in;   pos : where that statement is and where the handler is
\* The handler reports constructor, name, lineNumber, columnNumber (judged by PosOK: the node or its own statement).
ELPres == {"none", "fn", "nfn", "arrow", "arrow2", "getter", "setter", "dobody", "forbody", "whilebody", "fortestbody"}
ELFnPres == {"fn", "nfn", "arrow", "arrow2"}
ELLoopPres == {"dobody", "forbody", "whilebody", "fortestbody"}
ELSites == {"nullmember", "undefmember", "callnonfn", "unknownid", "methundef", "masgnull", "throwstmt", "mapres"}
ELStmts == {"expr", "varinit", "ifcond", "ret", "logarg"}
ELPoss == {"top", "fn", "infn", "arrow", "cb"}
ELInnerBody == <<SVar1("y", Plus(Var("a"), I(2))), SRet(Var("y"))>>
ELNested(pre) ==
  CASE pre = "fn" -> Fun("", <<"a">>, ELInnerBody)
    [] pre = "nfn" -> Fun("nm", <<"a">>, ELInnerBody)
    [] pre = "arrow" -> Arrow(<<"a">>, ELInnerBody)
    [] pre = "arrow2" -> Arrow(<<"a">>, <<SVar1("w", Arrow(<<"b">>, <<SVar1("y", Plus(Var("b"), I(2))), SRet(Var("y"))>>)), SRet(Call(Var("w"), <<Var("a")>>))>>)
    [] pre = "getter" -> ObjK(<<"p">>, <<"get">>, <<Fun("", <<>>, <<SVar1("y", I(2)), SRet(Var("y"))>>)>>)
    [] pre = "setter" -> ObjK(<<"p">>, <<"set">>, <<Fun("", <<"v">>, <<SVar1("y", Var("v")), SLog(Var("y"))>>)>>)
    [] OTHER -> I(0)
\* k(a, b) returns b: the literal is the first argument, the value that makes the rest of the statement fail the second
ELK(pre, v) == Call(Var("k"), <<ELNested(pre), v>>)
ELFault(site, pre) ==
  CASE site = "nullmember" -> DotAt(1, ELK(pre, ENull), "x")
    [] site = "undefmember" -> MemAt(1, ELK(pre, EUndef), EStr("x"))
    [] site = "callnonfn" -> CallAt(1, ELK(pre, I(5)), <<I(1)>>)
    [] site = "unknownid" -> ELK(pre, VarAt(1, "zz"))
    [] site = "methundef" -> CallAt(1, Dot(ELK(pre, Obj(<<"a">>, <<I(1)>>)), "nope"), <<I(1)>>)
    [] site = "masgnull" -> MAsg(DotAt(1, ELK(pre, ENull), "x"), I(3))
    [] site = "mapres" -> DotAt(1, Mem(Call(Dot(Arr(<<I(1), I(2)>>), "map"), <<ELNested(pre)>>), I(5)), "x")
ELLoopBody == SBlock(<<SVar1("y", I(1)), SLog(Var("y"))>>)
ELStmt(c) ==
  LET E == ELFault(c.site, c.pre) IN
  IF c.site = "throwstmt" THEN <<SThrowAt(1, ELK(c.pre, New(Var("RangeError"), <<EStr("m")>>)))>>
  ELSE CASE c.pre = "dobody" -> <<SDo(ELLoopBody, E)>>
         [] c.pre = "forbody" -> <<SFor(SVar1("i", I(0)), Bin("<", Var("i"), I(2)), E, ELLoopBody)>>
         [] c.pre = "whilebody" -> <<SVar1("i", I(0)), SWhile(Or(Bin("<", Upd("++", FALSE, "i"), I(1)), E), ELLoopBody)>>
         [] c.pre = "fortestbody" -> <<SFor(SVar1("i", I(0)), Or(Bin("<", Var("i"), I(1)), E), Upd("++", FALSE, "i"), ELLoopBody)>>
         [] c.stk = "expr" -> <<SExpr(E)>>
         [] c.stk = "varinit" -> <<SVar1("t", E)>>
         [] c.stk = "ifcond" -> <<SIf(E, SBlock(<<SLog(I(1))>>), NoS)>>
         [] c.stk = "ret" -> <<SRet(E)>>
         [] c.stk = "logarg" -> <<SLog(E)>>
ELClass(site) == CASE site = "unknownid" -> "ReferenceError" [] site = "throwstmt" -> "RangeError" [] OTHER -> "TypeError"
ELProg(c) ==
  LET ss == ELStmt(c)
      kdef == SFun("k", <<"a", "b">>, <<SRet(Var("b"))>>)
      catch == SBlock(Report("e9", ELClass(c.site)))
      fbody == <<SLog(I(0))>> \o ss \o <<SRet(I(1))>>
      callf == <<STry(SBlock(<<SLog(Call(Var("f"), <<>>))>>), "e9", catch, NoS), SLog(I(50))>>
  IN CASE c.pos = "top" -> Prog(<<kdef, SLog(I(0)), STry(SBlock(ss), "e9", catch, NoS), SLog(I(50))>>)
       [] c.pos = "fn" -> Prog(<<kdef, SFun("f", <<>>, fbody)>> \o callf)
       [] c.pos = "arrow" -> Prog(<<kdef, SVar1("f", Arrow(<<>>, fbody))>> \o callf)
       [] c.pos = "infn" -> Prog(<<kdef, SFun("f", <<>>, <<SLog(I(0)), STry(SBlock(ss), "e9", catch, NoS), SRet(I(1))>>),
                                   SLog(Call(Var("f"), <<>>)), SLog(I(50))>>)
       [] c.pos = "cb" -> Prog(<<kdef, STry(SBlock(<<SExpr(Call(Dot(Arr(<<I(1)>>), "forEach"), <<Fun("", <<"q">>, <<SLog(Var("q"))>> \o ss)>>))>>), "e9", catch, NoS),
                                 SLog(I(50))>>)
ELAll == [pre : ELPres, site : ELSites, stk : ELStmts, pos : ELPoss]
ELValid(c) ==
  /\ (c.stk = "ret" => c.pos # "top")
  /\ (c.site = "mapres" => c.pre \in ELFnPres)                       \* the native runs the literal
  /\ (c.site = "throwstmt" \/ c.pre \in ELLoopPres => c.stk = "expr") \* the statement kind is fixed by the site / the loop
  /\ (c.site = "throwstmt" => c.pre \notin ELLoopPres)
\* quick: every (pre, site) pair as an expression statement at script level; two sites (one of them runs the literal) with every
\* pre on a diagonal of (statement kind, position) that contains every kind and every position; every loop pre at every position
ELDiag(c) == <<c.stk, c.pos>> \in {<<"varinit", "fn">>, <<"ret", "arrow">>, <<"logarg", "cb">>, <<"ifcond", "infn">>}
ELQuickSel(c) ==
  \/ (c.stk = "expr" /\ c.pos = "top")
  \/ (c.site \in {"methundef", "mapres"} /\ ELDiag(c))
  \/ (c.pre \in ELLoopPres /\ c.site = "nullmember")
ELCases == {c \in ELAll : ELValid(c) /\ (~Quick \/ ELQuickSel(c))}

\* ======================= family RP: the n-th throw of ONE evaluation ====================================
\* The property quantifies over programs, not over single throws: the n-th exception of an evaluation must reach its handler
\* exactly once, intact, and leave the evaluation able to go on, exactly like the first - whatever was thrown and caught
\* before it.  A program of this family runs n rounds; round j throws at site sa (even rounds) or sb (odd rounds), the
\* handler counts the catch, adds the thrown value into a checksum and describes it in the first two rounds; after the
\* rounds the program logs the counters and then uses built-ins that run script code in the ordinary way (callback,
\* callback in a callback, accessor inside both) to show that the evaluation is undisturbed.
\*   sa, sb : throw site of a round (throw statement / runtime error in a plain function; throw or runtime error in script
\*            code that a built-in is running: forEach / map callback, callback in a callback, getter, setter, comparator)
\*   h      : where the handler is: inside the throwing function itself (the built-in is not crossed), in the function that
\*            calls the built-in, in that function's caller, below a second built-in, or all rounds run inside a callback
\*            of an outer built-in that stays active
\*   md     : try statement between the site and the handler;   hf : the handler's try statement has a finally block
\*   n      : number of rounds.  RPMany is larger than every per-evaluation budget of the engine that a throw leaving a
\*            built-in could use up (vm.py MAX_NATIVE_DEPTH = 100 nested interpreter loops is the largest)
RPSiteSeq == <<"plain", "rterr", "cbthrow", "mapthrow", "nested", "cbruntime", "getter", "setter", "getterrt", "sortcmp">>
RPSites == {RPSiteSeq[j] : j \in 1..Len(RPSiteSeq)}
RPIdx(st) == CHOOSE j \in 1..Len(RPSiteSeq) : RPSiteSeq[j] = st
RPNativeSites == RPSites \ {"plain", "rterr"}
RPHandlers == {"inner", "direct", "caller", "native", "under"}
RPMids == {"none", "finally", "rethrow"}
RPMany == 110
RPMore == 260                                       \* thorough only
RPCounts == {1, 4, RPMany} \cup (IF Quick THEN {} ELSE {RPMore})
RPI == Var("i")
\* what the handler adds to the checksum: the number itself, the length of a string, the length of an error's name
RPVal == Cond(Bin("==", TypeOf(Var("e9")), EStr("number")), Var("e9"),
              Cond(Bin("==", TypeOf(Var("e9")), EStr("string")), Dot(Var("e9"), "length"), Dot(Dot(Var("e9"), "name"), "length")))
RPCatch == SBlock(<<SExpr(Upd("++", FALSE, "cnt")), SExpr(CAsg("+", "sum", RPVal)),
                    SIf(Bin("<", RPI, I(2)), SBlock(<<SLog(EStr("H"))>> \o Describe("e9")), NoS)>>)
RPGuard(ss, hf) == <<STry(SBlock(ss), "e9", RPCatch, IF hf THEN SBlock(<<SExpr(Upd("++", FALSE, "fin"))>>) ELSE NoS)>>
\* the body of the round function (parameter i); W wraps the statements of the innermost function, the one that throws
RPSiteBody(st, W(_)) ==
  LET cb(ss) == Fun("", <<"v">>, ss) IN
  CASE st = "plain" -> W(<<SThrow(Plus(RPI, I(1000)))>>)
    [] st = "rterr" -> W(<<SVar1("u", ENull), SRet(Dot(Var("u"), "x"))>>)
    [] st = "cbthrow" -> <<SExpr(Call(Dot(Arr(<<RPI, I(7)>>), "forEach"), <<cb(W(<<SThrow(Plus(Var("v"), I(1000)))>>))>>))>>
    [] st = "mapthrow" -> <<SRet(Dot(Call(Dot(Arr(<<RPI>>), "map"), <<cb(W(<<SThrow(New(Var("RangeError"), <<EStr("m")>>))>>))>>), "length"))>>
    [] st = "nested" -> <<SExpr(Call(Dot(Arr(<<RPI>>), "forEach"),
                                     <<Fun("", <<"q">>, <<SExpr(Call(Dot(Arr(<<Var("q"), I(6)>>), "map"), <<cb(W(<<SThrow(Plus(Var("v"), I(3000)))>>))>>))>>)>>))>>
    [] st = "cbruntime" -> <<SVar1("u", NoE), SExpr(Call(Dot(Arr(<<RPI>>), "forEach"), <<cb(W(<<SExpr(Call(Var("u"), <<>>))>>))>>))>>
    [] st = "getter" -> <<SVar1("o", ObjK(<<"a", "p">>, <<"init", "get">>, <<I(1), Fun("", <<>>, W(<<SThrow(Plus(RPI, I(2000)))>>))>>)),
                          SRet(Plus(I(1), Dot(Var("o"), "p")))>>
    [] st = "setter" -> <<SVar1("o", ObjK(<<"p">>, <<"set">>, <<Fun("", <<"v">>, W(<<SThrow(New(Var("TypeError"), <<EStr("ro")>>))>>))>>)),
                          SExpr(MAsg(Dot(Var("o"), "p"), RPI))>>
    [] st = "getterrt" -> <<SVar(<<Decl("u", ENull), Decl("o", ObjK(<<"p">>, <<"get">>, <<Fun("", <<>>, W(<<SRet(Dot(Var("u"), "x"))>>))>>))>>),
                            SRet(Mem(Var("o"), EStr("p")))>>
    [] st = "sortcmp" -> <<SExpr(Call(Dot(Arr(<<I(3), RPI>>), "sort"), <<Fun("", <<"a", "b">>, W(<<SThrow(EStr("no order"))>>))>>))>>
RPMid(md, body) ==
  CASE md = "none" -> body
    [] md = "finally" -> <<STry(SBlock(body), "e1", NoS, SBlock(<<SExpr(Upd("++", FALSE, "fin"))>>))>>
    [] md = "rethrow" -> <<STry(SBlock(body), "e1", SBlock(<<SExpr(Upd("++", FALSE, "rt")), SThrow(Var("e1"))>>), NoS)>>
RPFun(name, st, c) ==
  LET inner(ss) == IF c.h = "inner" THEN RPGuard(ss, c.hf) \o <<SRet(I(5))>> ELSE ss
      site == RPSiteBody(st, inner)
      body == IF c.h = "direct" THEN RPGuard(site, c.hf) ELSE site
  IN SFun(name, <<"i">>, RPMid(c.md, body) \o <<SRet(I(1))>>)
RPProg(c) ==
  LET two == c.sa # c.sb
      pick(a) == IF two THEN Call(Var("pick"), <<a>>) ELSE Call(Var("fa"), <<a>>)
      pickdef == SFun("pick", <<"i">>, <<Set("t", Bin("-", I(1), Var("t"))),
                                         SIf(Bin("==", Var("t"), I(1)), SBlock(<<SRet(Call(Var("fa"), <<RPI>>))>>), NoS), SRet(Call(Var("fb"), <<RPI>>))>>)
      use(a) == <<Set("x", Plus(pick(a), I(100))), SExpr(Upd("++", FALSE, "nt"))>>
      round == CASE c.h \in {"inner", "direct"} -> use(RPI)
                 [] c.h \in {"caller", "under"} -> RPGuard(use(RPI), c.hf)
                 [] c.h = "native" -> RPGuard(<<SExpr(Call(Dot(Arr(<<RPI>>), "forEach"), <<Fun("", <<"q">>, use(Var("q")))>>))>>, c.hf)
      loop == SFor(SVar1("i", I(0)), Bin("<", RPI, I(c.n)), Upd("++", FALSE, "i"), SBlock(round))
      rounds == IF c.h = "under" THEN SExpr(Call(Dot(Arr(<<I(0)>>), "forEach"), <<Fun("", <<"z">>, <<loop>>)>>)) ELSE loop
      after == <<SLog(Var("cnt")), SLog(Var("sum")), SLog(Var("fin")), SLog(Var("rt")), SLog(Var("nt")), SLog(Var("x")),
                 SLog(Plus(I(1), Call(Var("g"), <<I(1), I(2), I(3)>>))),
                 SLog(Dot(Call(Dot(Arr(<<I(1), I(2), I(3)>>), "map"), <<Fun("", <<"v">>, <<SRet(Plus(Var("v"), I(1)))>>)>>), "length")),
                 SVar1("w", ObjK(<<"p">>, <<"get">>, <<Fun("", <<>>, <<SRet(I(5))>>)>>)),
                 SExpr(Call(Dot(Arr(<<I(7)>>), "forEach"),
                            <<Fun("", <<"a">>, <<SExpr(Call(Dot(Arr(<<I(8)>>), "forEach"),
                                                            <<Fun("", <<"b">>, <<SLog(Plus(Plus(Var("a"), Var("b")), Dot(Var("w"), "p")))>>)>>))>>)>>)),
                 SLog(I(50))>>
  IN Prog(<<SVar(<<Decl("x", I(0)), Decl("cnt", I(0)), Decl("sum", I(0)), Decl("fin", I(0)), Decl("rt", I(0)), Decl("nt", I(0)), Decl("t", I(0))>>),
            SFun("g", <<"a", "b", "c">>, <<SRet(Plus(Plus(Var("a"), Var("b")), Var("c")))>>),
            RPFun("fa", c.sa, c)>>
          \o (IF two THEN <<RPFun("fb", c.sb, c), pickdef>> ELSE <<>>)
          \o <<rounds>> \o after)
RPAll == [sa : RPSites, sb : RPSites, h : RPHandlers, md : RPMids, hf : BOOLEAN, n : RPCounts]
RPValid(c) == /\ RPIdx(c.sa) <= RPIdx(c.sb)                                       \* rounds alternate: the pair is unordered
              /\ (c.h = "inner" => "sortcmp" \notin {c.sa, c.sb})                 \* a comparator that returns: sorting is not modelled
RPLong(c) == c.n >= RPMany
\* thorough: the full product for n in {1, 4}; for RPMany every pair of sites (handler in the caller) and every single site
\* at every placement with every md and with hf; RPMore rounds for every single site (handler in the caller).
\* quick: for n = 4 every pair of sites (handler in the caller), every single site at every placement, with every md and
\* with hf; for RPMany every single site with the handler in the caller, one callback site at every placement, an accessor
\* site below a second built-in, a mixed pair, every md and hf once; n = 1 for every single site.
RPThoroughSel(c) == \/ ~RPLong(c)
                    \/ (c.n = RPMany /\ c.md = "none" /\ ~c.hf /\ c.h = "caller")
                    \/ (c.n = RPMany /\ c.sa = c.sb /\ (c.md = "none" \/ ~c.hf))
                    \/ (c.n = RPMore /\ c.sa = c.sb /\ c.h = "caller" /\ c.md = "none" /\ ~c.hf)
RPQuickSel(c) ==
  LET plainly == c.md = "none" /\ ~c.hf  single == c.sa = c.sb IN
  \/ (c.n = 4 /\ c.h = "caller" /\ plainly)
  \/ (c.n = 4 /\ single /\ plainly)
  \/ (c.n = 4 /\ single /\ c.h = "caller" /\ (c.md = "none" \/ ~c.hf))
  \/ (c.n = 4 /\ single /\ c.h \in {"native", "under"} /\ c.md = "none")
  \/ (c.n = 1 /\ single /\ c.h = "caller" /\ plainly)
  \/ (RPLong(c) /\ single /\ c.h = "caller" /\ plainly)
  \/ (RPLong(c) /\ single /\ c.sa = "cbthrow" /\ plainly)
  \/ (RPLong(c) /\ single /\ c.sa = "getter" /\ c.h = "native" /\ plainly)
  \/ (RPLong(c) /\ c.sa = "plain" /\ c.sb = "cbthrow" /\ c.h = "caller" /\ plainly)
  \/ (RPLong(c) /\ single /\ c.sa = "cbthrow" /\ c.h = "caller" /\ (c.md = "none" \/ ~c.hf))
RPCases == {c \in RPAll : RPValid(c) /\ (IF Quick THEN RPQuickSel(c) ELSE RPThoroughSel(c))}
\* law of the sub-grids (checked by TLC before anything runs): every value of every dimension occurs, every site occurs
\* with RPMany rounds at a placement where the throw leaves a built-in, and so does every placement, md and hf
RPGridLaw ==
  /\ \A st \in RPSites : \E c \in RPCases : RPLong(c) /\ c.sa = st /\ c.sb = st /\ c.h = "caller"
  /\ \A st \in RPSites, s2 \in RPSites : \E c \in RPCases : {c.sa, c.sb} = {st, s2}
  /\ \A hh \in RPHandlers : \E c \in RPCases : RPLong(c) /\ c.h = hh /\ c.sa \in RPNativeSites
  /\ \A md \in RPMids : \E c \in RPCases : RPLong(c) /\ c.md = md /\ c.sa \in RPNativeSites
  /\ \E c \in RPCases : RPLong(c) /\ c.hf /\ c.sa \in RPNativeSites
  /\ \A nn \in RPCounts, st \in RPSites : \E c \in RPCases : c.n = nn /\ c.sa = st
ASSUME RPGridLaw

\* ======================= family ML: several throw sites in ONE evaluation, each with its own location =======
\* The property asks for the line / column of THE throw, for every throw: an evaluation in which two (three) different sites
\* raise must report, for each error, the place of its own site - whatever was located before it.  Copy 1 and copy 2 of the
\* site stand in two different functions that come into being in the same way (so they have the same name, or none) and
\* have the same shape when sa = sb; each is invoked under its own handler, which reports name, line, column.  Where the
\* function is kept in a variable, copy 1 is invoked once more at the end (it must report its first location again).
\*   form : how the two functions are made and invoked (callback literal of forEach, arrow callback, function expression in a
\*          variable, arrow in a variable, named function expression - the same name twice -, function expression called on
\*          the spot, inner declaration of the same name in two outer functions, method / getter of the same key of two objects)
\*   sa, sb : site kind of copy 1 / copy 2;   pos : everything at script level or inside one function
MLForms == {"cb", "cbarrow", "fexpr", "arrow", "nfexpr", "iife", "inner", "method", "getter"}
MLStored == MLForms \ {"cb", "cbarrow", "iife"}
MLSiteSeq == <<"nullmember", "undefmember", "callnonfn", "unknownid", "methundef", "masgnull", "throwstmt">>
MLSites == {MLSiteSeq[j] : j \in 1..Len(MLSiteSeq)}
MLNext(st) == LET j == CHOOSE q \in 1..Len(MLSiteSeq) : MLSiteSeq[q] = st IN MLSiteSeq[(j % Len(MLSiteSeq)) + 1]
MLSite(st, n) ==
  CASE st = "throwstmt" -> <<SLog(EStr("s")), SThrowAt(n, New(Var("RangeError"), <<EStr("m")>>))>>
    [] st = "nullmember" -> <<SVar1("u", ENull), SRet(DotAt(n, Var("u"), "x"))>>
    [] st = "undefmember" -> <<SVar1("u", NoE), SRet(MemAt(n, Var("u"), EStr("x")))>>
    [] st = "callnonfn" -> <<SVar1("u", I(5)), SRet(CallAt(n, Var("u"), <<I(1)>>))>>
    [] st = "unknownid" -> <<SLog(EStr("s")), SRet(Plus(I(1), VarAt(n, "zz")))>>
    [] st = "methundef" -> <<SVar1("u", Obj(<<"a">>, <<I(1)>>)), SRet(CallAt(n, Dot(Var("u"), "nope"), <<I(1)>>))>>
    [] st = "masgnull" -> <<SVar1("u", ENull), SExpr(MAsg(DotAt(n, Var("u"), "x"), I(3))), SRet(I(1))>>
MLName(j) == IF j = 1 THEN "a1" ELSE "a2"
\* the statements that make copy j, and the statement that invokes it
MLDef(form, j, site) ==
  CASE form = "fexpr" -> <<SVar1(MLName(j), Fun("", <<>>, site))>>
    [] form = "arrow" -> <<SVar1(MLName(j), Arrow(<<>>, site))>>
    [] form = "nfexpr" -> <<SVar1(MLName(j), Fun("nm", <<>>, site))>>
    [] form = "inner" -> <<SFun(MLName(j), <<>>, <<SFun("w", <<>>, site), SRet(Call(Var("w"), <<>>))>>)>>
    [] form = "method" -> <<SVar1(MLName(j), Obj(<<"run">>, <<Fun("", <<>>, site)>>))>>
    [] form = "getter" -> <<SVar1(MLName(j), ObjK(<<"p">>, <<"get">>, <<Fun("", <<>>, site)>>))>>
    [] OTHER -> <<>>
MLInvoke(form, j, site) ==
  CASE form = "cb" -> SExpr(Call(Dot(Arr(<<I(1)>>), "forEach"), <<Fun("", <<"q">>, site)>>))
    [] form = "cbarrow" -> SExpr(Call(Dot(Arr(<<I(1)>>), "forEach"), <<Arrow(<<"q">>, site)>>))
    [] form = "iife" -> SLog(Call(Fun("", <<>>, site), <<>>))
    [] form = "method" -> SLog(Call(Dot(Var(MLName(j)), "run"), <<>>))
    [] form = "getter" -> SLog(Dot(Var(MLName(j)), "p"))
    [] OTHER -> SLog(Call(Var(MLName(j)), <<>>))
MLReport == SBlock(<<SLog(Dot(Var("e9"), "name")), SLog(Dot(Var("e9"), "lineNumber")), SLog(Dot(Var("e9"), "columnNumber"))>>)
MLUnit(form, j, site) == STry(SBlock(<<MLInvoke(form, j, site)>>), "e9", MLReport, NoS)
MLProg(c) ==
  LET s1 == MLSite(c.sa, 1)
      s2 == MLSite(c.sb, 2)
      units == MLDef(c.form, 1, s1) \o MLDef(c.form, 2, s2) \o <<SLog(I(0)), MLUnit(c.form, 1, s1), SVar1("between", I(1)), MLUnit(c.form, 2, s2)>>
               \o (IF c.form \in MLStored THEN <<MLUnit(c.form, 1, s1)>> ELSE <<>>)
  IN IF c.pos = "top" THEN Prog(units \o <<SLog(I(50))>>)
     ELSE Prog(<<SFun("f", <<>>, units \o <<SRet(I(1))>>), SLog(Call(Var("f"), <<>>)), SLog(I(50))>>)
MLAll == [form : MLForms, sa : MLSites, sb : MLSites, pos : {"top", "fn"}]
\* quick: same-shaped pairs: every form with a runtime error and with a throw statement, every site in a callback literal and in
\* an arrow, every form inside a function; differently shaped pairs: every site followed by the next one, in callback literals
MLQuickSel(c) ==
  \/ (c.sa = c.sb /\ c.pos = "top" /\ c.sa \in {"nullmember", "throwstmt"})
  \/ (c.sa = c.sb /\ c.pos = "top" /\ c.form \in {"cb", "arrow"})
  \/ (c.sa = c.sb /\ c.pos = "fn" /\ c.sa = "callnonfn")
  \/ (c.sb = MLNext(c.sa) /\ c.pos = "top" /\ c.form = "cb")
MLCases == {c \in MLAll : ~Quick \/ MLQuickSel(c)}
MLGridLaw ==
  /\ \A fm \in MLForms, ps \in {"top", "fn"} : \E c \in MLCases : c.form = fm /\ c.pos = ps /\ c.sa = c.sb
  /\ \A st \in MLSites : (\E c \in MLCases : c.sa = st /\ c.sb = st) /\ (\E c \in MLCases : c.sa = st /\ c.sb # st)
ASSUME MLGridLaw

\* ======================= family CT: what raises inside the clauses of one try statement ====================
\* The property speaks of every throw (statement, runtime error, script code run by a built-in, accessor, conversion) and of
\* every way out of a try statement, "throw from the catch clause" among them.  FO raises with throw statements only and its
\* clauses call log; here the raise is of every kind and the clauses record what happened either by calling log or by
\* variable traffic alone (counters and assignments, logged after the fact) - a clause of the second style contains no call,
\* no member access and no throw statement apart from the raising expression itself.
\*   pos  : the clause that raises (try block / catch clause / finally block; in the last two the try block throws 1 first)
\*   kind : how it raises;   sh : try-catch-finally, try-finally, try-catch;   sty : log calls or variable traffic
\*   h    : handler in the caller, in the same function around the statement, or none
CTKinds == {"throwstmt", "unknownid", "nullmember", "callnonfn", "getter", "cbthrow", "conv"}
CTPoss == {"try", "catch", "fin"}
CTShapes == {"tcf", "tf", "tc"}
CTStyles == {"log", "vars"}
CTHandlers == {"caller", "same", "none"}
CTSite(kd) ==
  CASE kd = "throwstmt" -> <<SThrow(I(7))>>
    [] kd = "unknownid" -> <<Set("seen", Var("zz"))>>
    [] kd = "nullmember" -> <<Set("seen", Dot(Var("nul"), "x"))>>
    [] kd = "callnonfn" -> <<Set("seen", Call(Var("five"), <<>>))>>
    [] kd = "getter" -> <<Set("seen", Dot(Var("acc"), "p"))>>
    [] kd = "cbthrow" -> <<SExpr(Call(Dot(Arr(<<I(1)>>), "forEach"), <<Fun("", <<"v">>, <<SThrow(Plus(Var("v"), I(1000)))>>)>>))>>
    [] kd = "conv" -> <<Set("seen", Plus(EStr("m"), Var("bad")))>>
CTNote(sty, tag, cnt) == IF sty = "log" THEN <<SLog(EStr(tag))>> ELSE <<SExpr(Upd("++", FALSE, cnt))>>
CTProg(c) ==
  LET site == CTSite(c.kind)
      tryb == SBlock(CTNote(c.sty, "t", "nt") \o (IF c.pos = "try" THEN site ELSE <<SThrow(I(1))>>))
      catb == IF c.sh = "tf" THEN NoS
              ELSE SBlock(CTNote(c.sty, "c", "nc") \o (IF c.sty = "log" THEN <<SLog(Var("e"))>> ELSE <<Set("seen", Var("e"))>>)
                          \o (IF c.pos = "catch" THEN site ELSE <<>>))
      finb == IF c.sh = "tc" THEN NoS ELSE SBlock(CTNote(c.sty, "f", "nf") \o (IF c.pos = "fin" THEN site ELSE <<>>))
      stmt == STry(tryb, "e", catb, finb)
      catch == SBlock(<<SLog(EStr("H"))>> \o Describe("e9"))
      fbody == IF c.h = "same" THEN <<STry(SBlock(<<stmt>>), "e9", catch, NoS), SRet(I(5))>> ELSE <<stmt, SRet(I(5))>>
      use == <<SLog(Plus(I(100), Call(Var("f"), <<>>)))>>
  IN Prog(<<SVar(<<Decl("seen", I(0)), Decl("nt", I(0)), Decl("nc", I(0)), Decl("nf", I(0)), Decl("nul", ENull), Decl("five", I(5))>>),
            SVar1("acc", ObjK(<<"p">>, <<"get">>, <<Fun("", <<>>, <<SThrow(I(4))>>)>>)),
            SVar1("bad", Obj(<<"toString">>, <<Fun("", <<>>, <<SThrow(EStr("ts"))>>)>>)),
            SFun("f", <<>>, fbody)>>
          \o (IF c.h = "caller" THEN <<STry(SBlock(use), "e9", catch, NoS)>> ELSE use)
          \o <<SLog(Var("nt")), SLog(Var("nc")), SLog(Var("nf")), SLog(Var("seen")), SLog(I(50))>>)
CTAll == [kind : CTKinds, pos : CTPoss, sh : CTShapes, sty : CTStyles, h : CTHandlers]
CTValid(c) == (c.sh = "tf" => c.pos # "catch") /\ (c.sh = "tc" => c.pos # "fin")
\* quick: everything with the handler in the caller; the other two placements for two kinds on the full statement
CTQuickSel(c) == c.h = "caller" \/ (c.kind \in {"throwstmt", "unknownid"} /\ c.sh = "tcf")
CTSel(c) == CTValid(c) /\ (~Quick \/ CTQuickSel(c))
CTCases == {c \in CTAll : CTSel(c)}
CTGridLaw ==
  /\ \A kd \in CTKinds, ps \in CTPoss, sy \in CTStyles : \E hh \in CTHandlers : CTSel([kind |-> kd, pos |-> ps, sh |-> "tcf", sty |-> sy, h |-> hh])
  /\ \A kd \in CTKinds, sp \in {<<"tf", "try">>, <<"tf", "fin">>, <<"tc", "try">>, <<"tc", "catch">>} :
        \E sy \in CTStyles, hh \in CTHandlers : CTSel([kind |-> kd, pos |-> sp[2], sh |-> sp[1], sty |-> sy, h |-> hh])
  /\ \A hh \in CTHandlers, ps \in CTPoss, sy \in CTStyles : \E kd \in CTKinds : CTSel([kind |-> kd, pos |-> ps, sh |-> "tcf", sty |-> sy, h |-> hh])
ASSUME CTGridLaw
\* sites NB of TS: every site at every handler placement, and with an operand pending below the call
NBGridLaw ==
  /\ \A st \in NBSites, hh \in Handlers : \E md \in Mids, pl \in {"stmt", "left", "arg"} : (~Quick \/ TSQuickSel([st |-> st, md |-> md, h |-> hh, pl |-> pl]))
  /\ \A st \in NBSites : \E md \in Mids, hh \in Handlers, pl \in {"left", "arg"} : (~Quick \/ TSQuickSel([st |-> st, md |-> md, h |-> hh, pl |-> pl]))
ASSUME NBGridLaw

\* ======================= enumeration =================================================================
C07Prog(cs) == CASE cs.fam = "TS" -> TSProg(cs.c) [] cs.fam = "FO" -> FOProg(cs.c) [] cs.fam = "ER" -> ERProg(cs.c)
                 [] cs.fam = "EL" -> ELProg(cs.c) [] cs.fam = "RP" -> RPProg(cs.c) [] cs.fam = "ML" -> MLProg(cs.c)
                 [] cs.fam = "CT" -> CTProg(cs.c)
C07Cases == (IF Has("TS") THEN {[fam |-> "TS", c |-> c] : c \in TSCases} ELSE {})
            \cup (IF Has("FO") THEN {[fam |-> "FO", c |-> c] : c \in FOCases} ELSE {})
            \cup (IF Has("ER") THEN {[fam |-> "ER", c |-> c] : c \in ERCases} ELSE {})
            \cup (IF Has("EL") THEN {[fam |-> "EL", c |-> c] : c \in ELCases} ELSE {})
            \cup (IF Has("RP") THEN {[fam |-> "RP", c |-> c] : c \in RPCases} ELSE {})
            \cup (IF Has("ML") THEN {[fam |-> "ML", c |-> c] : c \in MLCases} ELSE {})
            \cup (IF Has("CT") THEN {[fam |-> "CT", c |-> c] : c \in CTCases} ELSE {})
\* the programs of RPMany rounds need more steps than MaxSteps (EnumTerminates: none of them runs into the larger bound).
\* Enumeration run: every program is run step by step, every state and transition checked, for its first MaxSteps steps (the
\* bound under which all other programs live: about twenty rounds); beyond that k steps are one transition, the state
\* invariants being checked on every k-th state.  (TLC's cost per state - fingerprint and queue of a heap of a thousand
\* records - is six times the cost of the step itself.)
C07LongSteps == 40000
RECURSIVE StepK(_, _)
StepK(st, k) == IF k = 0 \/ Halted(st) THEN st ELSE StepK(Step(st, C07LongSteps), k - 1)
C07EnumNext == /\ ~Halted(mst) /\ UNCHANGED <<rec_i, cur>>
               /\ mst' = IF mst.steps >= MaxSteps THEN StepK(mst, 25) ELSE Step(mst, C07LongSteps)
\* the judge re-runs the reference next to the engine's observation; for records marked `rounds` (family RP) it takes k
\* steps per transition under the larger bound
C07JudgeNext == /\ ~Halted(mst) /\ UNCHANGED <<rec_i, cur>>
                /\ mst' = IF "rounds" \in DOMAIN Recs[rec_i] THEN StepK(mst, 25) ELSE Step(mst, MaxSteps)
C07EnumInit == /\ rec_i = 0 /\ cur \in C07Cases /\ mst = InitState(C07Prog(cur), {})
C07EnumEmit == ~Halted(mst) \/ PrintT(ToJson([fam |-> cur.fam, par |-> cur.c, prog |-> C07Prog(cur), steps |-> mst.steps]))
\* a finally block that has been entered is left before its try statement's continuation frame disappears, and a thrown
\* value reaches a catch parameter unchanged: checked as an action property over every transition of every program
CatchGetsThrown ==
  [][(mst.ctl.m = "C" /\ mst.ctl.c.c = "throw" /\ mst.k # <<>> /\ Top(mst).f = "try" /\ Top(mst).ph = "block" /\ Top(mst).t.c.s # "none"
      /\ mst.steps < MaxSteps)                                                  \* (single-step transitions, see C07EnumNext)
      => (mst'.ctl.m = "S" /\ mst'.heap[mst'.env].vars[Top(mst).t.cv] = mst.ctl.c.v /\ Len(mst'.k) = Len(mst.k) + 1)]_vars

\* ======================= shift law ======================================================================
\* records [id, prog, k, base, shifted] with base / shifted = [log, out]: the reference run tells which log entries are
\* locations; those must differ by exactly k, everything else must be equal
ShiftOK(r, ms) ==
  /\ Len(r.base.log) = Len(r.shifted.log)
  /\ r.base.out = r.shifted.out
  /\ \A j \in 1..Len(r.base.log) :
       IF j <= Len(ms.log) /\ ms.log[j].t = "loc"
       THEN r.base.log[j].t = "int" /\ r.shifted.log[j].t = "int" /\ r.shifted.log[j].i = r.base.log[j].i + r.k
       ELSE r.base.log[j] = r.shifted.log[j]
ShiftEmit == ~Halted(mst) \/ PrintT(ToJson([id |-> Recs[rec_i].id, ok |-> ShiftOK(Recs[rec_i], mst), o |-> mst.out.o]))
=============================================================================
