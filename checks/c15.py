"""C15 - evaluation is deterministic and independent of host hash randomisation (DESIGN 5/C15).

(a) TLC model-checks spec/Slots.tla: every permutation of the set-derived slot lists, wiring by name, same behaviour.
(b) Programs: C05 families CL / HO / EO, the families of spec/C15.tla (CO capture order, FF failing programs, FV bystanders,
    TX text-compiling built-ins, PK computed property keys with the expected value prescribed by the specification, EN
    enumeration order of own properties (sequences of data / accessor properties), EV run-time compile sites x names the
    compiler invents) - all enumerated by TLC, with the histories HF / HT / HK / HE -, seeded closure-heavy and general random programs, and the corpus
    scripts of /repo/tests/basic and /repo/tests/compat.  Every program runs under PYTHONHASHSEED = 0..N-1 in separate
    processes, in shuffled batches inside one process (each batch twice: back to back, and with virtual time beyond every
    time limit passing between two evaluations), and in the histories spec/C15.tla enumerates (a failing program in every
    position among bystanders that use its names; the text-compiling programs of one pattern; each history in a process
    that evaluated nothing before, twice over, with both clock schedules).  TLC judges (EqJudge of spec/C15.tla) that all
    observations of a program are equal, that the outcome is of the class the language prescribes, and that the compiled
    slot layouts are instances of the Slots model's choice; the common observation is judged against MiniJS (Judge of
    C05).  Python only collects.
"""
import os, glob, json, random, time
from concurrent.futures import ThreadPoolExecutor
from harness import tlc, engine
from harness.common import Machinery, REPO
from checks import c05, c05_gen

SLOTS_CFG = "INIT SlotsInit\nNEXT SlotsNext\nINVARIANT SlotsInRange\nINVARIANT LayoutIndependent\nINVARIANT Terminates\nCHECK_DEADLOCK FALSE\n"
EQ_CFG = "INIT EqInit\nNEXT EqNext\nCHECK_DEADLOCK FALSE\n"
ENUM15_CFG = ("INIT Enum15Init\nNEXT MachineNext\nCONSTRAINT Enum15Emit\nINVARIANT Invariants\nINVARIANT EnumTerminates\n"
              "PROPERTY LogAppendOnly\nCHECK_DEADLOCK FALSE\n")
SKIP_CORPUS = ("mandelbrot.js",)              # 30 s of rendering; nothing about slots in it
DRIVER = "checks.c15_driver:driver"
CHUNK = 120                                   # observations per EqJudge record (every record starts with the first observation)


def corpus():
    items = []
    for d in ("tests/basic", "tests/compat"):
        for path in sorted(glob.glob(os.path.join(REPO, d, "*.js"))):
            if os.path.basename(path) in SKIP_CORPUS:
                continue
            with open(path, encoding="utf-8") as f:
                items.append({"id": "corpus/" + os.path.basename(path), "src": f.read(), "fam": "corpus", "mode": "corpus"})
    return items


def key_of(fam, par):
    return fam + json.dumps(par, sort_keys=True, separators=(",", ":"))


def own_space(rep, res):
    """programs and histories printed by Enum15 of spec/C15.tla"""
    progs, hists, seen = [], [], set()
    for r in res.records:
        if r.get("kind") == "prog":
            k = key_of(r["fam"], r["par"])
            if k in seen:
                continue
            seen.add(k)
            it = {"id": k, "fam": r["fam"], "par": r["par"], "ref": bool(r["ref"]), "exp": r["exp"], "ast": bool(r["ast"])}
            if r["ast"]:
                it["prog"], it["mode"] = r["prog"], "ast"
            else:
                it["src"], it["mode"] = r["src"], "text"
            if r["ml"]:
                it["ml"] = r["ml"]
            it["xv"] = r.get("xv", "")
            progs.append(it)
        elif r.get("kind") == "hist":
            k = key_of(r["fam"], r["id"]["c"])
            if k in seen:
                continue
            seen.add(k)
            hists.append({"id": k, "fam": r["fam"], "items": [key_of(x["fam"], x["c"]) for x in r["items"]],
                          "clks": [r["clk"]] * int(r["rounds"]), "fork": True, "lay": False})
    progs.sort(key=lambda p: p["id"])
    hists.sort(key=lambda h: h["id"])
    return progs, hists


def run(rep):
    quick = rep.tier == "quick"
    # (a) the model, its vacuity guard (the same model with closures wired by position must violate LayoutIndependent),
    #     and the two enumerations - four TLC runs side by side
    with ThreadPoolExecutor(max_workers=4) as ex:
        f_slots = ex.submit(tlc.run, rep.pid, "Slots", SLOTS_CFG, env={"TIER": rep.tier}, timeout=1200, tag="slots", heap="4g")
        f_bad = ex.submit(tlc.run, rep.pid, "Slots", SLOTS_CFG, env={"TIER": "quick", "WIRING": "index"}, timeout=600, tag="slots_selftest", heap="4g")
        f_own = ex.submit(tlc.run, rep.pid, "C15", ENUM15_CFG, env={"TIER": rep.tier}, timeout=1500, tag="enum_own", heap="4g")
        fam_cases = c05.enumerate_programs(rep, "C05", rep.tier, tag="enum_closure", env={"FAMS": "CL HO EO"})
        res, bad, own = f_slots.result(), f_bad.result(), f_own.result()
    rep.add_tlc("Slots (all permutations of locals / cell_vars / free_vars of 5 closure programs, wiring by name)", res)
    rep.spaces.append({"space": "Slots: layouts x steps of the abstract closure programs", "cases": res.distinct, "complete": True})
    if "LayoutIndependent" not in bad.violated:
        raise Machinery("Slots self-test: index-based wiring was not rejected (%s)" % (bad.violated or bad.errors[:2]))
    rep.notes["slots_selftest"] = "index-based wiring violates LayoutIndependent after %d states" % bad.distinct
    rep.add_tlc("C15.enum_own (families CO / WS / FF / FV / TX / PK / EN / EV and the histories; MiniJS invariants on every state of every program in the fragment)", own)
    own_progs, hists = own_space(rep, own)
    nfam = {}
    for p in own_progs:
        nfam[p["fam"]] = nfam.get(p["fam"], 0) + 1
    for h in hists:
        nfam[h["fam"]] = nfam.get(h["fam"], 0) + 1
    for f in ("CO", "WS", "FF", "FV", "TX", "PK", "EN", "EV", "HF", "HT", "HK", "HE"):
        if not nfam.get(f):
            raise Machinery("enumeration of spec/C15.tla produced no %s item" % f)
    rep.spaces.append({"space": "C15 families (TLC-enumerated): " + ", ".join("%s=%d" % kv for kv in sorted(nfam.items())),
                       "cases": len(own_progs) + len(hists), "complete": True})
    # (b) programs
    progs = [{"id": "F%d" % c["id"], "fam": c["fam"], "par": c["par"], "prog": c["prog"], "mode": "ast", "ref": True, "exp": "", "ast": True}
             for c in fam_cases]
    rnd = random.Random(rep.seed * 104729 + 15)
    nclo = int(os.environ.get("C15_NCLO", "150" if quick else "1000"))
    ngen = int(os.environ.get("C15_NGEN", "40" if quick else "300"))
    for i in range(nclo):
        progs.append({"id": "C%d" % i, "fam": "closure-random", "par": {"seed": rep.seed, "n": i}, "prog": c05_gen.closure_program(rnd),
                      "mode": "ast", "ref": True, "exp": "", "ast": True})
    for i in range(ngen):
        progs.append({"id": "G%d" % i, "fam": "general-random", "par": {"seed": rep.seed, "n": i}, "prog": c05_gen.random_program(rnd),
                      "mode": "ast", "ref": True, "exp": "", "ast": True})
    items = progs + own_progs + [dict(c, ref=False, exp="", ast=False) for c in corpus()]
    nseeds = int(os.environ.get("C15_SEEDS", "16" if quick else "64"))
    byid = {it["id"]: it for it in items}
    if len(byid) != len(items):
        raise Machinery("program ids are not unique")
    obs = {it["id"]: [] for it in items}
    # order inside a per-seed process: the programs that fail come last, so that a program's first observation (seed 0) is
    # made before anything has failed in that process
    cases = [dict((k, v) for k, v in it.items() if k in ("id", "prog", "src", "mode", "ml"))
             for it in sorted(items, key=lambda it: it["fam"] == "FF")]
    for h in hists:
        for k in h["items"]:
            if k not in byid:
                raise Machinery("history %s refers to a program that was not enumerated: %s" % (h["id"], k))

    def wall_hang(r):
        return r["out"].get("o") == "hang" and "wall" in str(r["out"].get("why", ""))

    # the families whose subject is the history (FF / FV / TX) run under the first 16 hash seeds only
    hist_fams = {it["id"] for it in items if it["fam"] in ("FF", "FV", "TX", "PK", "EN", "EV")}
    cases16 = cases if nseeds <= 16 else [c for c in cases if c["id"] not in hist_fams]

    def one_seed(seed):
        # each hash seed in a process of its own; the virtual clock starts at 0 for every evaluation
        mine = cases if seed < 16 else cases16
        rs = engine.run_cases(rep.pid, mine, driver=DRIVER, hashseed=str(seed), tag="eng_seed%d" % seed,
                              procs=1 if nseeds >= 16 else None)
        if len(rs) != len(mine):
            raise Machinery("seed %d: %d results for %d cases" % (seed, len(rs), len(mine)))
        # a wall-clock watchdog verdict (overloaded machine) is re-run alone before it counts (DESIGN 3.4)
        again = [dict(c, wall=900.0) for c in mine if any(r["id"] == c["id"] and wall_hang(r) for r in rs)]
        if again:
            redo = {r["id"]: r for r in engine.run_cases(rep.pid, again, driver=DRIVER, hashseed=str(seed),
                                                         tag="eng_seed%d_rerun" % seed, procs=1)}
            rs = [redo.get(r["id"], r) for r in rs]
        return "seed", seed, rs

    # shuffled batches inside one process (does anything depend on what was evaluated before, or on when?): every batch runs
    # its order twice, back to back and then with more virtual time than any time limit between two evaluations
    batches = []
    for b in range(2 if quick else 4):
        order = list(cases)
        random.Random(rep.seed + 1000 + b).shuffle(order)
        batches.append({"id": "batch%d" % b, "items": order, "clks": ["b2b", "gap"]})

    def one_batch(bc):
        seed = 1 + int(bc["id"][5:])
        return "hist", bc["id"], engine.run_cases(rep.pid, [bc], driver=DRIVER, hashseed=str(seed), tag="eng_" + bc["id"], procs=1)

    # the enumerated histories: each in a child forked from a process that has evaluated nothing; groups under different hash seeds
    ngroups = 8 if quick else 16
    used = {k for h in hists for k in h["items"]}
    table = {"id": "table", "table": {c["id"]: c for c in cases if c["id"] in used}}

    def one_group(g):
        part = hists[g::ngroups]
        if not part:
            return "hist", "group%d" % g, []
        return "hist", "group%d" % g, engine.run_cases(rep.pid, [table] + part, driver=DRIVER, hashseed=str(g), tag="eng_hist%d" % g, procs=1)

    t0 = time.time()
    dropped = 0
    with ThreadPoolExecutor(max_workers=int(os.environ.get("C15_PROCS", "26"))) as ex:
        futs = [ex.submit(one_batch, bc) for bc in batches] + [ex.submit(one_seed, s) for s in range(nseeds)] \
            + [ex.submit(one_group, g) for g in range(ngroups)]
        done = [f.result() for f in futs]
    c05.timed(rep, "engine", t0)
    nhist_obs = 0
    set_orders = set()
    for kind, what, rs in sorted(done, key=lambda d: (d[0] != "seed", str(d[1]) if d[0] != "seed" else "%04d" % d[1])):
        if kind == "seed":
            for r in rs:
                obs[r["id"]].append({"src": "seed%d" % what, "log": r["log"], "out": r["out"], "hl": r["hl"], "lay": r["lay"]})
                if r.get("so"):
                    set_orders.add(r["so"])
        else:
            for r in rs:
                if wall_hang(r):            # overloaded machine: this observation is not comparable (counted, not judged)
                    dropped += 1
                    continue
                nhist_obs += 1
                obs[r["item"]].append({"src": "%s round %d (%s) position %d" % (r["hid"], r["round"], r["clk"], r["idx"]),
                                       "log": r["log"], "out": r["out"], "hl": r["hl"], "lay": r["lay"]})
    if dropped:
        rep.notes["batch_observations_dropped_wall_clock"] = dropped
    want = sum(len(b["items"]) * len(b["clks"]) for b in batches) + sum(len(h["items"]) * len(h["clks"]) for h in hists)
    if nhist_obs + dropped != want:
        raise Machinery("batches and histories: %d observations for %d evaluations" % (nhist_obs + dropped, want))
    # EqJudge (long observation lists are cut into records that all start with the program's first observation)
    eq_recs, chunk_of = [], {}
    for it in items:
        o = obs[it["id"]]
        if not o:
            raise Machinery("no observation of %s" % it["id"])
        isast = bool(it.get("ast")) and "prog" in it
        parts = [o] if len(o) <= CHUNK else [o[:1] + o[1 + k:1 + k + CHUNK - 1] for k in range(0, len(o) - 1, CHUNK - 1)]
        for n, part in enumerate(parts):
            rid = "%s#%d" % (it["id"], n)
            chunk_of[rid] = (it["id"], part)
            eq_recs.append({"id": rid, "ast": isast, "prog": it["prog"] if isast else {"body": []}, "exp": it.get("exp", ""), "xv": it.get("xv", ""),
                            "devs": [], "obs": part})
    t0 = time.time()
    verdicts, st, tr, wall = tlc.judge(rep.pid, "C15", eq_recs, EQ_CFG, shards=c05.SHARDS, tag="judge_eq")
    c05.timed(rep, "tlc_judge_eq", t0)
    rep.add_judge(sum(len(r["obs"]) for r in eq_recs), st, tr)
    got = {v["id"]: v for v in verdicts}
    if len(got) != len(eq_recs):
        raise Machinery("EqJudge returned %d verdicts for %d records" % (len(got), len(eq_recs)))
    varied, reported = set(), set()
    for rec in eq_recs:
        v = got[rec["id"]]
        iid, part = chunk_of[rec["id"]]
        it = byid[iid]
        if v["nlay"] > 1:
            varied.add(iid)
        if not (v["eq"] and v["shape"] and v["scope"] and v["cls"] and v["val"]) and iid not in reported:
            reported.add(iid)
            why = ("outcomes differ between hash seeds / evaluation orders / clock schedules" if not v["eq"]
                   else "the outcome is not of the class the language prescribes (%s)" % it.get("exp") if not v["cls"]
                   else "the value is not the one the specification prescribes (%r)" % it.get("xv") if not v["val"]
                   else "slot layouts are not permutations of each other with a fixed prefix" if not v["shape"]
                   else "slot lists of a top-level function are not the sets the scope analysis prescribes")
            k = (v.get("first", 0) or v.get("firstcls", 0) or v.get("firstval", 0) or 1)
            d = part[min(k, len(part)) - 1]
            rep.mismatch("%s %s" % (it["fam"], it["id"]),
                         {"why": why, "par": it.get("par"), "first": {x: part[0][x] for x in ("src", "log", "out")},
                          "differing": {x: d[x] for x in ("src", "log", "out")},
                          "source": it.get("src") or __import__("harness.render", fromlist=["render"]).render(it["prog"])[0]}, dev="")
    rep.notes["programs_with_layouts_varying_across_seeds"] = len(varied)
    # Since /repo 806ce9d the compiler assigns slots in sorted order, so layouts no longer vary with the hash seed (before,
    # at least one program's layout had to vary or the experiment was void). That the seeds are in force is now shown directly:
    # the processes of different seeds must iterate one fixed set of strings in different orders.
    if len(set_orders) < 2:
        raise Machinery("all engine processes iterate a set of strings in the same order: the hash seeds are not in force")
    rep.notes["distinct_set_iteration_orders_across_processes"] = len(set_orders)
    # the common observation against the reference semantics
    ast_items = [it for it in items if it.get("ref") and "prog" in it]
    recs = [{"id": it["id"], "prog": it["prog"], "log": obs[it["id"]][0]["log"], "out": obs[it["id"]][0]["out"], "pos": []} for it in ast_items]
    results = {it["id"]: {"log": obs[it["id"]][0]["log"], "out": obs[it["id"]][0]["out"]} for it in ast_items}
    jv = c05.judge(rep, "C15", recs, enumerated=False)
    for it in ast_items:
        if it["fam"] in ("CO", "WS", "FF", "FV") and jv[it["id"]]["v"] == "skip":
            raise Machinery("reference machine could not run an enumerated program (%s): %s" % (jv[it["id"]].get("why"), it["id"]))
    c05.report(rep, ast_items, results, jv)
    rep.spaces.append({"space": "programs x hash seeds (separate processes) + shuffled in-process batches (each back to back and with "
                                "time passing) + enumerated histories (fresh process each, two rounds)",
                       "cases": len(items), "seeds": nseeds, "batches": len(batches), "histories": len(hists),
                       "history_and_batch_observations": nhist_obs, "complete": False})
    rep.evaluations = sum(len(o) for o in obs.values())
    rep.exhaustive = True           # the Slots model and the enumerated families were completed; seeds are a sample by nature
    rep.assumptions += ["the hash seed influences the engine only through set / dict iteration order (CPython)",
                        "Math.random and Date.now are excluded (not used by the programs)",
                        "the engine reads the clock through time.monotonic only (replaced by a virtual clock: one second per instruction, "
                        "advanced by the driver between evaluations)"]
