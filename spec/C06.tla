-------------------------------- MODULE C06 --------------------------------
(* C06 - operators and conversions on primitive values follow ECMAScript.       *)
(*   Grid   : the boundary operand values, written as the texts that denote them *)
(*   Enum   : the case space (operator x operand pair x target form), printed    *)
(*   Laws   : properties of the reference (JsOps / Dbl / JsConv) itself           *)
(*   Judge  : records observed on the real engine, judged against JsOps          *)
EXTENDS JsOpsAsIs, Json, IOUtils

S(txt) == VStr(U(txt))
N(txt) == ToNumberV(S(txt))

\* ---------------- operand grid -----------------------------------------------------------------
GridSeq == <<
  \* 1..10
  N("NaN"), N("0"), N("-0"), N("Infinity"), N("-Infinity"), N("1"), N("-1"), N("0.5"), N("1.5"), N("-7"),
  \* 11..20
  N("3"), N("2147483648"), N("4294967295"), N("9007199254740992"), N("1e21"), N("1e-7"), N("5e-324"),
  N("1.7976931348623157e308"), S(""), S(" 12 "),
  \* 21..31   (the quick grid is 1..31)
  S("1e3"), S("0x10"), S("1_0"), S("Infinity"), S("abc"), S("-0"), S("a"), VBool(TRUE), VBool(FALSE), Null, Undef,
  \* 32..  numbers
  N("-0.5"), N("-1.5"), N("0.1"), N("0.3"), N("2"), N("7"), N("10"), N("31"), N("32"), N("33"),
  N("2147483647"), N("2147483649"), N("-2147483648"), N("-2147483649"), N("4294967296"), N("4294967297"),
  N("-4294967295"), N("4294967296.5"), N("9007199254740991"), N("9007199254740994"), N("-9007199254740992"),
  N("-9007199254740991"), N("1e16"), N("123456789"), N("1e-5"), N("0.000001"), N("-1e21"), N("1e300"),
  N("2.2250738585072014e-308"), N("-5e-324"), N("-1.7976931348623157e308"), N("1e-300"), N("65535.5"),
  \* strings
  S(" "), S("0"), S("1"), S("-1"), S("1.5"), S("10"), S("9"), S("0b1"), S("0o17"), S("-Infinity"), S("+Infinity"),
  S("1,2"), S("b"), S("ab"), S("true"), S("null"), S("undefined"), S("NaN"), S(".5"), S("5."), S("+5"), S("1e"),
  S("0x"), S("-0x10"), S("1e1000"), S("-1e-400"), S("9007199254740993"), S("1E3"), S("0.1"), S("Infinit"), S("infinity"),
  VStr(<<65279, 49, 160>>), VStr(<<28, 49>>), VStr(<<9, 10, 49, 50, 13>>), S("1 2"), S("1e21"), S("1e-7"), S("1000000000000000000000"),
  S("12px"), S("-"), S("A"), S("0xe"), S("0x1E"), S("-0.0"), S("1_0.5"), S("00012"), S("1e+2"), S("-.5e1")
>>
NGrid == Len(GridSeq)
Tier == IF "TIER" \in DOMAIN IOEnv THEN IOEnv.TIER ELSE "quick"
Quick == Tier = "quick"
\* the quick grid: the first 31 values plus the string "0" and the two strings that tell the ECMAScript white space
\* set from the host's (a mutant that made "0" falsy, or trimmed with the host set, was seen only by random trees before)
QuickExtra == {gi \in 1..NGrid : GridSeq[gi] \in {S("0"), VStr(<<65279, 49, 160>>), VStr(<<28, 49>>)}}
GridIdx == IF Quick THEN (1..31) \cup QuickExtra ELSE 1..NGrid
\* sub-grid for the assignment-target forms (the lowering, not the operator, is what varies there); it contains a
\* negative number so that >>>= and >>= differ (a mutant mapping >>>= to the >> opcode went unnoticed without it)
TargetIdx == IF Quick THEN {1, 3, 6, 7, 9, 14, 20, 27, 28, 31} ELSE {1, 2, 3, 4, 6, 7, 9, 10, 12, 14, 15, 17, 19, 20, 21, 23, 25, 27, 28, 30, 31}
Targets == <<"global", "local", "cell", "free", "dot", "computed", "elem", "elemvar">>
BinOpSeq == <<"+", "-", "*", "/", "%", "**", "&", "|", "^", "<<", ">>", ">>>", "<", "<=", ">", ">=", "==", "!=", "===", "!==", "&&", "||", ",">>
CmpdOpSeq == <<"+", "-", "*", "/", "%", "**", "&", "|", "^", "<<", ">>", ">>>">>
UnOpSeq == <<"neg", "pos", "!", "~", "typeof", "void">>
CondA == 6            \* index of 1
CondB == 27           \* index of "a"

\* ---------------- Enum: print the case space --------------------------------------------------
VARIABLES ph, cur, rec_i          \* rec_i: never a name that library operators bind
vars == <<ph, cur, rec_i>>
EnumInit == ph = "start" /\ cur = [a |-> 0, b |-> 0] /\ rec_i = 0
EnumNext ==
  \/ /\ ph = "start"
     /\ \E ia \in GridIdx : ph' = "row" /\ cur' = [a |-> ia, b |-> 0] /\ UNCHANGED rec_i
  \/ /\ ph = "row"
     /\ \E ib \in GridIdx : ph' = "pair" /\ cur' = [a |-> cur.a, b |-> ib] /\ UNCHANGED rec_i
EnumEmit ==
  CASE ph = "start" -> PrintT(ToJson([kind |-> "grid", vals |-> GridSeq, targets |-> Targets]))
    [] ph = "row" -> PrintT(ToJson([kind |-> "single", a |-> cur.a, un |-> UnOpSeq, upd |-> <<"++", "--">>,
                                    targets |-> IF cur.a \in TargetIdx THEN Targets ELSE <<"global", "dot">>,
                                    untargets |-> <<"global", "local">>,
                                    cond |-> [a |-> CondA, b |-> CondB]]))
    [] ph = "pair" -> PrintT(ToJson([kind |-> "pair", a |-> cur.a, b |-> cur.b, bin |-> BinOpSeq,
                                     cmpd |-> IF cur.a \in TargetIdx /\ cur.b \in TargetIdx THEN CmpdOpSeq ELSE <<>>,
                                     targets |-> Targets]))

\* ---------------- Laws of the reference -------------------------------------------------------
IsT(v) == v.k = "bool" /\ v.b
B(op, a, b) == BinOp(op, a, b)
NumResultOK(v) == IsApprox(v) \/ (v.k = "num" /\ DCanon(DFromW(v.w)) /\ DToW(DFromW(v.w)) = v.w)
PairLaws(a, b) ==
  LET x == ToNumberD(a)  y == ToNumberD(b)
      anynan == x.c = "nan" \/ y.c = "nan"
      nostr == a.k # "str" /\ b.k # "str"
      sum == DAdd(x, y)  dif == DSub(x, y)  prd == DMul(x, y)  quo == DDiv(x, y)  rem == DFmod(x, y)
  IN /\ IsT(B("<", a, b)) = IsT(B(">", b, a))
     /\ IsT(B("<=", a, b)) = IsT(B(">=", b, a))
     /\ (IsT(B("===", a, b)) => IsT(B("==", a, b)))
     /\ IsT(B("==", a, b)) = IsT(B("==", b, a))
     /\ IsT(B("===", a, b)) = IsT(B("===", b, a))
     /\ IsT(B("!=", a, b)) = ~IsT(B("==", a, b))
     /\ IsT(B("!==", a, b)) = ~IsT(B("===", a, b))
     \* at most one of <, ==(numeric), > ; exactly one when neither side converts to NaN and they are not both strings
     /\ ~(IsT(B("<", a, b)) /\ IsT(B(">", a, b)))
     /\ (~anynan /\ ~(a.k = "str" /\ b.k = "str") =>
           (IF IsT(B("<", a, b)) THEN 1 ELSE 0) + (IF IsT(B(">", a, b)) THEN 1 ELSE 0) + (IF DNumEq(x, y) THEN 1 ELSE 0) = 1)
     /\ (anynan /\ ~(a.k = "str" /\ b.k = "str") => \A op \in RelOps : ~IsT(B(op, a, b)))
     \* NaN poisons arithmetic
     /\ (anynan => \A op \in {"-", "*", "/", "%"} : B(op, a, b) = NumV(DNaN))
     /\ (anynan /\ nostr => B("+", a, b) = NumV(DNaN))
     \* results of numeric operators are doubles in canonical encoding
     /\ \A op \in ArithOps \cup BitOps : NumResultOK(B(op, a, b))
     /\ (nostr => NumResultOK(B("+", a, b)))
     /\ (~nostr => B("+", a, b).k = "str")
     \* commutativity
     /\ sum = DAdd(y, x) /\ prd = DMul(y, x)
     /\ B("&", a, b) = B("&", b, a) /\ B("|", a, b) = B("|", b, a) /\ B("^", a, b) = B("^", b, a)
     \* the functional results satisfy the relational specifications (two independent formulations)
     /\ AddOK(x, y, sum) /\ SubOK(x, y, dif) /\ MulOK(x, y, prd) /\ DivOK(x, y, quo) /\ FmodOK(x, y, rem)
     /\ DCanon(sum) /\ DCanon(dif) /\ DCanon(prd) /\ DCanon(quo) /\ DCanon(rem)
     \* remainder: sign of the dividend, magnitude below the divisor
     /\ (rem.c = "fin" => rem.s = x.s /\ (y.c = "inf" \/ DMagCmp(rem, y) < 0))
     /\ (rem.c = "zero" /\ x.c # "nan" => rem.s = x.s)
     \* x - y = x + (-y);  (-x) * y = -(x * y);  (-x) / y = -(x / y)
     /\ dif = DAdd(x, DNeg(y)) /\ DMul(DNeg(x), y) = DNeg(prd) /\ DDiv(DNeg(x), y) = DNeg(quo)
     \* bitwise results are int32, >>> results are uint32; shifts mask the count
     /\ \A op \in {"&", "|", "^", "<<", ">>"} : LET r == DFromW(B(op, a, b).w) IN DToInt32(r) = r
     /\ LET r == DFromW(B(">>>", a, b).w) IN DToUint32(r) = r
     /\ B("|", a, VInt(0)) = NumV(DToInt32(x)) /\ B(">>>", a, VInt(0)) = NumV(DToUint32(x))
     /\ B("<<", a, b) = B("<<", a, NumV(DOfSmallInt(ShiftCount(y))))
     \* logical operators select an operand
     /\ B("&&", a, b) = (IF ToBool(a) THEN b ELSE a) /\ B("||", a, b) = (IF ToBool(a) THEN a ELSE b)
     \* compound assignment is Get; Op; Put
     /\ \A op \in CompoundOps : CmpdOp(op, a, b).after = B(op, a, b)
     \* the implementation-shaped model with every deviation switched off is the reference
     /\ \A ir \in BOOLEAN : \A oi \in 1..Len(BinOpSeq) :
           LET op == BinOpSeq[oi]  x1 == ABinOp(op, AIn(a, ir, {}), AIn(b, ir, {}), {})
           IN (IF x1.k = "approx" THEN x1 ELSE AOut(x1)) = B(op, a, b)
SingleLaws(a) ==
  LET x == ToNumberD(a)
      inc == UpdOp("++", TRUE, a)  pinc == UpdOp("++", FALSE, a)
  IN /\ TypeOfU(a) \in {TypeOfU(Undef), TypeOfU(Null), TypeOfU(VBool(TRUE)), TypeOfU(VInt(1)), TypeOfU(VStr(<<>>))}
     /\ UnOp("!", UnOp("!", a)) = VBool(ToBool(a))
     /\ UnOp("pos", a) = B("-", a, VInt(0)) /\ UnOp("pos", a) = B("*", a, VInt(1)) /\ UnOp("pos", a) = B("/", a, VInt(1))
     /\ UnOp("neg", UnOp("neg", a)) = UnOp("pos", a)
     /\ (x.c # "nan" => UnOp("~", UnOp("~", a)) = B("|", a, VInt(0)))
     /\ DToInt32(DToInt32(x)) = DToInt32(x) /\ DToInt32(DToUint32(x)) = DToInt32(x)
     /\ inc.res = inc.after /\ pinc.res = UnOp("pos", a) /\ pinc.after = inc.after /\ inc.after = B("+", UnOp("pos", a), VInt(1))
     \* number -> text -> number round trip; the functional text satisfies the relational specification
     /\ (a.k = "num" => /\ ToNumberV(VStr(ToStringU(a))) = (IF WIsZero(a.w) THEN VInt(0) ELSE a)
                        /\ NumTextOK(DFromW(a.w), ToStringU(a)))
     /\ (a.k = "str" => StrDenotes(a.u, x) /\ DCanon(x))
     /\ IsT(B("===", a, a)) = (a.k # "num" \/ ~WIsNaN(a.w))
     \* the implementation-shaped model with every deviation switched off is the reference
     /\ \A ir \in BOOLEAN :
           /\ \A oi \in 1..Len(UnOpSeq) : AOut(AUnOp(UnOpSeq[oi], AIn(a, ir, {}), {})) = UnOp(UnOpSeq[oi], a)
           /\ \A op \in UpdateOps : \A pre \in BOOLEAN :
                 LET u1 == AUpdOp(op, pre, AIn(a, ir, {}), {})  u0 == UpdOp(op, pre, a)
                 IN AOut(u1.res) = u0.res /\ AOut(u1.after) = u0.after
LawsHold == CASE ph = "start" -> \A gi \in GridIdx : GridSeq[gi].k \in PrimKinds /\ (GridSeq[gi].k = "num" => NumResultOK(GridSeq[gi]))
              [] ph = "row" -> SingleLaws(GridSeq[cur.a])
              [] ph = "pair" -> PairLaws(GridSeq[cur.a], GridSeq[cur.b])
              [] OTHER -> TRUE

\* ---------------- Judge ------------------------------------------------------------------------
Recs == ndJsonDeserialize(IOEnv.OBS_FILE)     \* [id, f, op, tgt, pre, a, b, c, intrep, tree, out]
NoTarget == Undef
Expect(r) ==
  CASE r.f = "bin" -> [res |-> BinOp(r.op, r.a, r.b), after |-> NoTarget]
    [] r.f = "un" -> [res |-> UnOp(r.op, r.a), after |-> NoTarget]
    [] r.f = "upd" -> UpdOp(r.op, r.pre, r.a)
    [] r.f = "cmpd" -> CmpdOp(r.op, r.a, r.b)
    [] r.f = "asg" -> [res |-> r.b, after |-> r.b]
    [] r.f = "cond" -> [res |-> CondOp(r.c, r.a, r.b), after |-> NoTarget]
    [] r.f = "tree" -> [res |-> EvalTree(r.tree), after |-> NoTarget]
\* the relational specification with the engine's own result as the certificate
RelApplies(r) == r.f = "bin" /\ r.op \in {"+", "-", "*", "/", "%"} /\ ~(r.op = "+" /\ (r.a.k = "str" \/ r.b.k = "str"))
                 /\ r.out.o = "value" /\ r.out.res.k = "num"
RelOK(r) ==
  LET x == ToNumberD(r.a)  y == ToNumberD(r.b)  z == DFromW(r.out.res.w) IN
  CASE r.op = "+" -> AddOK(x, y, z) [] r.op = "-" -> SubOK(x, y, z) [] r.op = "*" -> MulOK(x, y, z)
    [] r.op = "/" -> DivOK(x, y, z) [] r.op = "%" -> FmodOK(x, y, z)
OutMatches(act, exp) == act.o = "value" /\ ValAgrees(act.res, exp.res) /\ ValAgrees(act.after, exp.after)
ShowExp(e) == [res |-> e.res, after |-> e.after]
Verdict(r) ==
  LET exp == Expect(r)
      fun == OutMatches(r.out, exp)
  IN IF fun /\ (~RelApplies(r) \/ RelOK(r)) THEN [v |-> "pass", dev |-> "", exp |-> ShowExp(exp)]
     ELSE IF fun \/ (RelApplies(r) /\ RelOK(r) /\ r.out.after = exp.after)
          THEN [v |-> "spec-inconsistent", dev |-> "", exp |-> ShowExp(exp)]      \* the two formulations disagree: machinery
     ELSE [v |-> "mismatch", dev |-> Explain(r, exp), exp |-> ShowExp(exp)]
JudgeInit == /\ rec_i \in 1..Len(Recs) /\ ph = "judge" /\ cur = [a |-> 0, b |-> 0]
             /\ LET r == Recs[rec_i]  v == Verdict(r)
                IN PrintT(ToJson([id |-> r.id, v |-> v.v, dev |-> v.dev, exp |-> v.exp]))
JudgeNext == UNCHANGED vars
=============================================================================
