"""Token sequences of spec/JsGrammar.tla -> JavaScript source text.

The specification owns all structure: it prints a tree as a token sequence in which the REQUIRED
grouping parentheses are "(:" ":)" and every position where a redundant pair may be added carries
the optional markers "(?" "?)".  This module only
  * drops / keeps markers             (strip_marks, minimal rendering, used for the base case)
  * flips coins                        (make_layout: which optional pairs become real parentheses,
                                        which trivia goes between two tokens), the result is a *layout
                                        sequence* (tokens + named trivia items) that the TLC judge
                                        re-parses with the specification's own parser and checks
                                        against LayoutSupported before it looks at the engine
  * maps names to text                 (render_tokens, render_layout)
It has no precedence table of its own.
"""
import random

# named literal tokens of the statement-level programs (C13.tla Progs); "!" = terminator deleted
LITERALS = {
    "<s1>": "'s'", "<s1!>": "'s",
    "<s2>": '"t u"', "<s2!>": '"t u',
    "<r1>": "/x[/]y/g", "<r1!>": "/x[/]yg",
    "<c1>": "/* c */", "<c1!>": "/* c ",
}
# named trivia items (JsGrammar.tla Trivia / TriviaNL)
TRIVIA = {
    "<sp>": " ", "<sp2>": "   ", "<tab>": "\t", "<nl>": "\n", "<crlf>": "\r\n",
    "<bc>": "/**/", "<bc2>": "/* a * b / c */", "<bcnl>": "/* l1\n l2 */", "<lc>": "//\n", "<lc2>": "// x */ /* y\n",
    "<vt>": "\x0b", "<ff>": "\x0c",
}
TRIVIA_NL = {"<nl>", "<crlf>", "<bcnl>", "<lc>", "<lc2>"}
NO_NL_BEFORE = {"++", "--", "=>"}
NO_NL_AFTER = {"break", "continue", "return", "throw"}
KEYWORDS = {"var", "function", "return", "if", "else", "while", "do", "for", "in", "of", "break", "continue", "switch",
            "case", "default", "try", "catch", "finally", "throw", "new", "delete", "typeof", "instanceof", "this",
            "true", "false", "null", "void"}
BRACKETS = {"(", ")", "[", "]", "{", "}", ",", ";"}
SPACE_LIKE = {"<sp>", "<sp2>", "<tab>", "<nl>", "<crlf>", "<vt>", "<ff>"}


def text(tok):
    if tok in LITERALS:
        return LITERALS[tok]
    if tok in TRIVIA:
        return TRIVIA[tok]
    if tok == "(:":
        return "("
    if tok == ":)":
        return ")"
    return tok


def strip_marks(toks):
    """marked sequence -> the minimally parenthesised token sequence"""
    out = []
    for t in toks:
        if t in ("(?", "?)"):
            continue
        out.append("(" if t == "(:" else ")" if t == ":)" else t)
    return out


def render_tokens(toks):
    """base rendering: one space between any two tokens"""
    return " ".join(text(t) for t in toks)


def render_holes(toks, fill):
    """token sequence with holes ("<L1>", "<L2>": text chosen by the specification, given in `fill`) -> text.
    One blank between two items, none around the glue item "<+>"."""
    out, glue = [], True
    for t in toks:
        if t == "<+>":
            glue = True
            continue
        if not glue:
            out.append(" ")
        out.append(fill[t] if t in fill else text(t))
        glue = False
    return "".join(out)


def _is_word(t):
    return t[0].isalnum() or t[0] in "_$"


def can_abut(a, b):
    """may two tokens be written without trivia between them?  (never more liberal than JsGrammar!CanAbut)"""
    return (a in BRACKETS or b in BRACKETS) and a != "/" and b != "/"


def choose_parens(marked, rng, p=0.3):
    """turn a random subset of the optional pairs into real parentheses (some of them doubled)"""
    out, stack = [], []
    for t in marked:
        if t == "(?":
            r = rng.random()
            n = 0 if r > p else (2 if r < p * 0.2 else 1)
            stack.append(n)
            out.extend(["("] * n)
        elif t == "?)":
            out.extend([")"] * stack.pop())
        elif t == "(:":
            out.append("(")
        elif t == ":)":
            out.append(")")
        else:
            out.append(t)
    return out


def make_layout(toks, rng, names=None, density=0.6):
    """tokens -> layout sequence: trivia items between tokens, none in the restricted positions"""
    names = names or ["<sp>", "<sp2>", "<tab>", "<nl>", "<crlf>", "<bc>", "<bc2>", "<bcnl>", "<lc>", "<lc2>"]
    lay = []

    def some(prev, nxt, must):
        k = 0
        r = rng.random()
        if must or r < density:
            k = 1 if r < density * 0.7 else 2
            k = max(k, 1)
        items = []
        for j in range(k):
            cand = names
            if prev == "/" and j == 0:                       # "/" + comment would start a comment
                cand = [n for n in names if n in SPACE_LIKE]
            if (nxt is not None and nxt in NO_NL_BEFORE) or (prev is not None and prev in NO_NL_AFTER):
                cand = [n for n in cand if n not in TRIVIA_NL]
            items.append(rng.choice(cand))
        return items

    if rng.random() < 0.3:
        lay.extend(some(None, toks[0] if toks else None, False))
    for i, t in enumerate(toks):
        lay.append(t)
        if i + 1 < len(toks):
            lay.extend(some(t, toks[i + 1], not can_abut(t, toks[i + 1])))
    if rng.random() < 0.3:
        lay.extend(some(toks[-1] if toks else None, None, False))
    return lay


def render_layout(lay):
    return "".join(text(t) for t in lay)


def variant(marked, seed, parens=True, vtff=False):
    """one seeded layout variant of a marked token sequence"""
    rng = random.Random(seed)
    toks = choose_parens(marked, rng) if parens else strip_marks(marked)
    names = None
    if vtff:
        names = ["<sp>", "<vt>", "<ff>", "<nl>", "<tab>"]
    return make_layout(toks, rng, names=names)
