#!/bin/bash
# tools/run_tier.sh <tier> <per-check timeout s> Cxx ... : run checks one after the other, one summary line each
TIER=$1; TMO=$2; shift 2
cd "$(dirname "$0")/.."
for p in "$@"; do
  s=$(date +%s)
  timeout $TMO ./check $p --tier $TIER > /tmp/run_tier_$p.out 2>&1; rc=$?
  e=$(date +%s)
  echo "$p rc=$rc wall=$((e-s))s $(grep "$p $TIER:" /tmp/run_tier_$p.out | tail -1 | cut -c1-160) $(grep -m1 MACHINERY /tmp/run_tier_$p.out | cut -c1-200)"
done
echo ALLDONE
