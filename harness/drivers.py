"""Drivers that run inside the engine child (see engine_child.py)."""
from harness import wire

ERRS = ["RangeError", "TypeError", "SyntaxError", "ReferenceError", "EvalError", "URIError", "Error"]

CLASSIFY_JS = (
    "function __cls(e){"
    + "".join("if (e instanceof %s) return '%s';" % (n, n) for n in ERRS)
    + "return 'value:' + typeof e; }"
)


def wire_to_py(w, intrep=False):
    """wire value -> Python value accepted by Context.set (exact, bypasses the lexer)."""
    import microjs
    k = w["k"]
    if k == "undef":
        return microjs.UNDEFINED
    if k == "null":
        return None
    if k == "bool":
        return w["b"]
    if k == "num":
        x = wire.words_dbl(w["w"])
        if intrep and x == x and abs(x) < 2 ** 53 and x == int(x) and not (x == 0 and str(x)[0] == "-"):
            return int(x)
        return x
    if k == "str":
        return wire.from_units(w["u"])
    if k == "arr":
        return [wire_to_py(e, intrep) for e in w["e"]]
    if k == "obj":
        return {wire.from_units(p["n"]): wire_to_py(p["v"], intrep) for p in w["p"]}
    raise ValueError("cannot pass wire kind " + k)


def call_driver(case, api):
    """One method call on a receiver: case = {id, recv, m, args:[wire], intrep?}.

    Result: out = {"o":"value","v":wire,"recv_after":wire} | {"o":"throw","cls":name} | eval outcome (host, ...)."""
    ctx = api.new_context(time_limit=case.get("time_limit", 10.0))
    got = []
    ctx.set("__out", lambda *a: (got.append(a), None)[1])
    intrep = bool(case.get("intrep"))
    ctx.set("__r", wire_to_py(case["recv"], intrep))
    names = []
    for i, a in enumerate(case["args"]):
        ctx.set("__a%d" % i, wire_to_py(a, intrep))
        names.append("__a%d" % i)
    m = case["m"]
    if m == "[]":
        expr = "__r[%s]" % names[0]
    elif m == ".length":
        expr = "__r.length"
    elif m in ("replace_fnd", "replaceAll_fnd"):
        # function replacer whose result contains dollar patterns (spec: JsString!FnReplacementD)
        expr = ("__r.%s(%s, function (mt) { return '[$&$$$' + String.fromCharCode(96) + '$' + String.fromCharCode(39) + ']' + mt })"
                % (m[:-4], names[0] if names else ""))
        if not names:
            expr = "__r.%s()" % m[:-4]
    elif m in ("replace_fn", "replaceAll_fn"):
        # function replacer supplied by the driver: "<" matched "|" position "|" string ">" (spec: JsString!FnReplacement)
        expr = ("__r.%s(%s, function (mt, pos, str) { return '<' + mt + '|' + pos + '|' + str + '>' })" % (m[:-3], names[0] if names else ""))
        if not names:
            expr = "__r.%s()" % m[:-3]
    elif m.startswith("fn:"):          # plain function call, receiver ignored: fn:String, fn:String.fromCharCode
        expr = "%s(%s)" % (m[3:], ", ".join(names))
    else:
        expr = "__r.%s(%s)" % (m, ", ".join(names))
    src = CLASSIFY_JS + "try { __out('v', " + expr + ", __r); } catch (e) { __out('t', __cls(e)); }"
    if case.get("again"):
        # the same call a second time after the first result was modified in place: a result depends on (method, receiver,
        # arguments) only, and each call returns a fresh value.  The first result is serialised before it is touched.
        ctx.set("__snap", lambda v: (got.append(("snap", wire.to_wire(v))), None)[1])
        ctx.set("__out2", lambda *a: (got.append(("second",) + tuple(wire.to_wire(x) if i == 1 else x for i, x in enumerate(a))), None)[1])
        src = (CLASSIFY_JS + "var __r1, __thrown = false; try { __r1 = " + expr + "; } catch (e) { __thrown = true; __out('t', __cls(e)); } "
               "if (!__thrown) { __out('v', __r1, __r); __snap(__r1); "
               "if (__r1 && typeof __r1 === 'object' && typeof __r1.push === 'function') { __r1.push('zz'); __r1.reverse(); __r1[0] = 'changed'; } "
               "try { __out2('v', " + expr + "); } catch (e) { __out2('t', __cls(e)); } }")
    out = api.eval_outcome(ctx, src, wall=case.get("wall", 20.0), cap=case.get("cap", 2_000_000))
    snap = [g for g in got if g[0] == "snap"]
    second = [g for g in got if g[0] == "second"]
    got = [g for g in got if g[0] not in ("snap", "second")]
    if out["o"] == "value":
        if len(got) != 1:
            out = {"o": "host", "type": "NoOutcome", "where": "driver", "msg": "got %d outputs" % len(got)}
        elif got[0][0] == "v":
            if isinstance(got[0][1], str) and len(got[0][1]) > 50_000_000:
                # a gigantic result (no enumerated case has one): recorded as such, not serialised
                out = {"o": "host", "type": "GiganticResult", "where": "driver", "msg": "string of %d elements" % len(got[0][1])}
            else:
                out = {"o": "value", "v": (snap[0][1] if snap else wire.to_wire(got[0][1])), "recv_after": wire.to_wire(got[0][2])}
                if case.get("again"):
                    # v2: the second call's result; absent = the second call did not produce one
                    out["v2"] = second[0][2] if second and second[0][1] == "v" else {"k": "hostval", "t": "second call: " + (str(second[0][1:3]) if second else "nothing")}
        else:
            out = {"o": "throw", "cls": str(got[0][1])}
    return {"id": case["id"], "out": out}
