#!/usr/bin/env python3
"""Regenerate /verif/MANIFEST.json from the table below (kept valid at all times)."""
import json, os, subprocess

V = "/verif"
CHECKS = {
 "C16": dict(
   technique="TLA+ reference (JsString) + TLC: case space enumerated by TLC, replayed into the engine, judged by TLC",
   text="Model checking of an explicit TLA+ transcription of ECMA-262 String.prototype (spec/JsString.tla): TLC checks the reference's own laws on every enumerated case, enumerates the full product method x receiver grid x argument grid (quick 18k, thorough 52k cases, each also with integer-valued numbers held as host ints), the driver replays every case into the engine and TLC judges value, type, error class and receiver immutability. Exhaustive within the grids; not a proof beyond them.",
   design_ref="DESIGN.md 5/C16",
   note="Trusted: TLC, the wire codec and value classifier (harness/wire.py), JsString.tla as a transcription of ECMA-262; case mapping judged on ASCII only (documented restriction); regex-taking overloads are judged under C20."),
 "C14": dict(
   technique="TLA+ model of the instruction encoding (Encoding.tla, exhaustive over all emission sequences with a small byte base) + TLC-judged sweep of size templates across the 8-bit/16-bit boundaries on the real compiler and VM",
   text="Model checking: Encoding.tla models emitter, back-patching and decoder; TLC explores every emission sequence up to 5-6 instructions with byte base 4 (all operand/target overflow boundaries, 1e5-1.4e6 states) and checks Decode(Encode(p)) = p or refused, and that the pre-fix masking emitter violates it (non-vacuity). Conformance: TLC enumerates (template, n) over 19 shape templates with n across 255/256 and the 64 KB code boundary (quick 225, thorough ~430 programs up to n = 1e5), the engine runs each, TLC judges the result against the closed form in C14.tla or accepts a refusal only if it is a JSError raised before anything executed; TLC also judges, on the exported real bytecode of every compiled function, that all jump targets are instruction starts and that the decoder tables of both interpreter loops and the emitter agree (read from the engine's source).",
   design_ref="DESIGN.md 5/C14",
   note="Trusted: TLC; the template renderer in checks/c14_driver.py against the closed forms (cross-checked at n = 1, 2, 50); extraction of decoder tables from vm.py by ast (failure = exit 2). Operator chains deeper than the documented parser recursion limit are out of scope."),
 "C02": dict(
   technique="TLA+ models MemLimit (accounting + host-stack budget) and JsVM (abstract VM over exported real bytecode, all static paths) checked by TLC; depth statistics recorded at every loop back-edge of real runs judged by TLC",
   text="Model checking: MemLimit.tla (the est = 100*operands + 200*frames check before every step, script calls pushing frames, natives nesting interpreter loops under a depth cap) is explored exhaustively for M set/unset: MemBound, HostBound (violated without the cap: non-vacuity), finiteness. JsVM.tla is run by TLC over the REAL bytecode of every enumerated statement body (inner construct x exit kind x enclosure x place; quick ~830 bodies / 2400 functions, thorough the full valid product): both outcomes of every branch, an exception edge from every instruction that can raise, invariants no-underflow, valid targets, end/return cleanliness, handler balance and bounded depth - a universally quantified statement over iteration counts. Conformance: each body runs N = 1, 30/50, 200/2000 times under a small fixed M with the hook recording operand/handler/frame depth at every backward jump; TLC judges steadiness at every loop head, equal outcome and equal peak depths for all N, never MemoryLimitError. Recursion shapes (self, mutual, each callback-taking built-in, accessors, conversions, call/apply/bind, new, eval, Function) x M: TLC judges MemoryLimitError after at most M/200 + 2 levels, never a host error.",
   design_ref="DESIGN.md 5/C02",
   note="Trusted: TLC; the stack-effect table in JsVM.tla (transcribed from VM._execute_opcode; an unknown opcode is reported as bad:opcode); the hook. Static findings are violations only when a real run confirms them (otherwise listed as static_only in evidence). Bytes and seconds are not judged (steps and depths are); heap data is documented as unaccounted."),
 "C01": dict(
   technique="TLA+ state machine of the deadline enforcement (TimeLimit.tla) model-checked by TLC; scripts enumerated by TLC (construct x place x wrapper x T x M) run under a virtual clock, late steps per loop kind judged by TLC",
   text="Model checking: TimeLimit.tla models the interpreter loops that can nest on the host stack (main, callback loop, nested VM, regex matcher, lookaround sub-matcher), their shared counters and poll points over a virtual clock; TLC explores all nestings up to depth 4-5 and every position of the deadline relative to every counter: LateBound (at most one poll interval of VM instructions and of regex steps after the deadline), NeverCaught, NoLateFinish; the three pre-fix behaviours (fresh counters per nested VM / per regex attempt, catchable limit error) each violate their invariant (non-vacuity). Conformance: TLC enumerates keep-running constructs (while/for/do-while/labelled continue/self and mutual recursion/catastrophic regex/many short regex calls/lookahead/nested eval loops) x 24 places where script code runs (top level, function, arrow, constructor, every callback-taking array method, sort comparator, getter, setter, valueOf, call/apply/bind, indirect eval, new Function, eval in eval, callback in callback) x 7 try/catch/finally wrappers x T x memory_limit (quick 830, thorough ~6700 scripts) plus finite twins that must not be stopped; every script runs with time.monotonic replaced by a clock that advances one tick per hooked instruction/regex step; TLC judges outcome = TimeLimitError, late VM steps <= 1000 + 2, late regex steps <= 100 + 2.",
   design_ref="DESIGN.md 5/C01",
   note="Trusted: TLC, the hook sites (one per interpreter/regex loop; a loop added without a hook executes unseen steps - the wall-clock watchdog then reports hang), the virtual clock substitution. Wall-clock seconds are recorded, not judged; a single native operation on a huge operand is outside the property's scope."),
 "C03": dict(
   technique="TLA+ reference model of property access (Sandbox.tla: NonInterference, NoPhantom, TypeOK) model-checked by TLC; paired executions (internal name vs fresh name) and observable-value kinds recorded through the hook judged by TLC",
   text="Model checking: Sandbox.tla models lookup by receiver over own properties, the receiver kind's fixed built-in list and the prototype chain; TLC explores all operation sequences over a small object graph (74k distinct / 4.2M generated states) and checks that two names unknown to every table are indistinguishable under every access form, that an unknown name never resolves to anything, and TypeOK. Conformance: TLC enumerates 22 receiver kinds x 18 access forms; the driver harvests EVERY attribute name of every class of microjs.values/vm/context/compiler, of live engine objects, and the host dunder vocabulary (~700 names on the current tree; names that C03.tla lists as JavaScript properties are classified as such), and runs each (receiver, form) once with the internal name and once with a fresh name: TLC judges the two observations equal kind-for-kind (name masked), no host function invoked unless the form calls it. Every corpus program and ~100-450 generated programs run with a hook that classifies each value becoming observable (operands of STORE_*, SET_PROP, RETURN, THROW, call arguments, literal elements) and each value returned to the embedder: TLC judges JsVal!TypeOK. Quick samples 100 names (36k pairs), thorough uses all (~280k pairs).",
   design_ref="DESIGN.md 5/C03",
   note="Trusted: TLC; the value classifier (harness/wire.py to_wire); the list Legit in C03.tla. A host exception that escapes identically for the internal and the fresh name is C04's business, not judged here."),
 "C17": dict(
   technique="TLA+ reference of Array.prototype / typed arrays (JsArray.tla, TypedArr.tla) with the array store as a state machine and scripted callback responders; TLC enumerates calls and histories, engine replay, TLC judges results, receiver snapshots, identities and callback logs (total trace spec for histories)",
   text="Model checking: laws of the reference on every enumerated case (fresh vs same identity, splice/slice/length laws, sort = stable permutation with undefined last, codec laws for the nine element kinds incl. 13 hand-checked binary32 vectors, views stay inside their buffer) and the array store as a state machine (14 methods x receivers x responder tables, depth 2/3: density, reference integrity, frame condition; quick 7k, thorough 440k distinct states). Conformance: TLC enumerates (method, receiver, args) over 44 receivers of length 0..6 x the adversarial index grid, every callback method x every responder table of length <= 3 over {truthy, falsy, throw, push, pop, shorten}, sort over all short arrays x 10 comparators, typed-array scripts (9 kinds x stored-value grid, construction from length/array/buffer, two views of one buffer, set, subarray); the engine replays (~70k judged records in quick); TLC judges result or error class, identity, a snapshot of every array after the call and the callback log. Thorough adds seeded random histories validated event by event by a total trace specification.",
   design_ref="DESIGN.md 5/C17, notes/C17.md",
   note="Trusted: TLC, wire codec, JsArray/TypedArr as transcriptions of ECMA-262 under the documented stricter mode (dense arrays, out-of-bound writes are errors); comparator call sequences and the order produced by inconsistent comparators are not judged (implementation-defined)."),

 "C05": dict(
   technique="TLA+ small-step reference machine MiniJS (CEK style) model-checked by TLC on every enumerated program; program families enumerated by TLC as ASTs, rendered, run on the engine, (log, completion | error) judged by TLC",
   text="Model checking: MiniJS.tla executes every enumerated program under TLC with invariants KontWF, FinallyOnce, TryAccounting, log append-only (action property) and termination within the step bound. Conformance: TLC enumerates the families CF (construct x exit kind x enclosing construct x placement/expression context x guard: 1 857 quick / ~9 700 thorough), SW (switch fall-through/default position), EO (evaluation order, every operand a logging call), HO (hoisting), CV (completion values), CL (closures: captured kind x access x activations); harness/render.py renders the AST, the engine runs it with log exposed, TLC judges the ordered log and the completion value or uncaught error against MiniJS; seeded random larger programs on top. Recorded findings are exact named deviations (completion value of try/loops).",
   design_ref="DESIGN.md 5/C05, notes/C05.md",
   note="Trusted: TLC, MiniJS as a transcription of ECMA-262 for the fragment (var/function, loops, switch, labels, try, closures, arguments), render.py (cross-checked), wire codec. Programs outside the fragment yield 'unsupported' (machinery failure for enumerated programs, not judged for random ones)."),
 "C07": dict(
   technique="MiniJS.tla reference machine (exceptions, finally-once history counters, natives as machine frames) + TLC-enumerated throw-site x handler x nesting x context families replayed on the engine and judged by TLC; shift law for locations",
   text="Model checking: FinallyOnce / TryAccounting / unwinding invariants of MiniJS on every enumerated program. Conformance: TLC enumerates throw site (statement, member access on null/undefined, call of a non-function, unknown identifier, built-ins that raise, callbacks of forEach/map/sort, getters, setters) x handler placement (same function, caller, caller across a native frame, none) x try nesting with every exit kind x expression context; TLC judges log, outcome, error class (instanceof its constructor and Error), name, and lineNumber/columnNumber of the throw; each program is also rendered shifted by k lines/columns and the reported locations must shift by k. Quick ~1 700 judged items incl. 200 shifted renderings and 200 seeded random programs.",
   design_ref="DESIGN.md 5/C07, notes/C07.md",
   note="Trusted: TLC, MiniJS, render.py. Error message text is recorded, not judged; the Python-side name of the JSError of an uncaught throw is not judged."),
 "C15": dict(
   technique="Slots.tla (compile-time permutations of the set-derived slot lists, run-time wiring by name) model-checked by TLC; closure-heavy programs and corpus scripts run under 16/64 hash seeds and in shuffled batches, outcomes and slot layouts judged by TLC",
   text="Model checking: Slots.tla chooses an arbitrary permutation for locals / cell vars / free vars at compile time and wires closures by name at run time; TLC checks that the observable behaviour is the same for every permutation (5 424 layouts, 163k states quick). Conformance: the C05 closure family, seeded closure-heavy programs and the corpus run under PYTHONHASHSEED 0..15 (thorough 64) in separate processes and in shuffled batches in one process; TLC judges that all outcomes are equal, equal to the MiniJS reference, and that every observed slot layout is an instance of the model's nondeterministic choice (fixed prefix params, arguments[, name]).",
   design_ref="DESIGN.md 5/C15, notes/C15.md",
   note="Trusted: TLC, MiniJS, the layout exporter. Math.random and Date.now are excluded as the property states."),
 "C11": dict(
   technique="Boundary.tla (ToJs/ToPy as recursive operators, context as a store of copies) model-checked by TLC; set/get/eval/host-call/mutation traces on boundary and random values judged by TLC",
   text="Model checking: ToPy(ToJs(v)) = Norm(v), idempotence, bool/int separation over a 20k-value grid; 16 hand-checked int->double vectors. Conformance: 483 TLC-enumerated boundary traces, all 12 336 interleavings of 5 set/eval/get events on two names, 3 000 (thorough 60 000) seeded random traces with events set, script view, get, eval(name), eval(expr), host call (7 forms), mutate-returned, mutate-passed; TLC judges every observation against the store-of-copies model, so aliasing shows up as a mismatch on a later get.",
   design_ref="DESIGN.md 5/C11, notes/C11.md",
   note="Trusted: TLC, wire codec. Ints beyond 2^53 may come back exact or correctly rounded; cyclic values are C04's subject; containers returned by host callables are passed through as documented."),
 "C12": dict(
   technique="ContextModel.tla state machine (two contexts, 20 snippet kinds) model-checked by TLC; all histories of 3/4 events replayed on real contexts with full-state probes after every event, validated by a total TLC trace specification",
   text="Model checking: Frame (an action on one context leaves the other unchanged, as an action property), Recovery (every context equals its error-free twin), EffectsPersist, PointerClear, NestingBalanced over all histories <= 6 events (1.24M states), coverage: all 22 actions fire. Conformance: TLC emits all 56 584 histories of 3 events (thorough: 368k of 4 events + 2 000 simulated of 60 events over 3 contexts) over define/assign/delete/mutate built-in/throw after effect/loop forever (virtual clock)/recurse forever/syntax error/indirect eval/new Function/re-entrant eval/set/get; the driver probes the whole projected state of every context after every event; the trace specification (clauses outcome, result, pointer, leak, frame, state) replays every event, is total, and its binding is self-tested on every run (corrupted field, dropped event).",
   design_ref="DESIGN.md 5/C12, notes/C12.md",
   note="Trusted: TLC, the probe (13-field projection per context), virtual clock."),
 "C09": dict(
   technique="RegexSem.tla (ECMAScript backtracking matcher as ordered result lists, capture reset, empty-iteration rule, flags) with laws model-checked by TLC; all ASTs up to a size x all short subjects enumerated by TLC, run through RegExp.exec and script-level exec, judged by TLC",
   text="Model checking: laws of RegexSem (match bounds, greedy/lazy agree on existence, Render round trip). Conformance: TLC enumerates all patterns with <= 1 operator node over 14 atoms and <= 2 over a reduced atom set (thorough 3) with every operator kind (quantifiers greedy/lazy/counted, groups, alternation, backreference, lookahead, lookbehind) x all subjects over {a,b,c} up to length 4/5, flag sets i/m/s where they matter: quick 6 166 patterns / 1.05M (pattern, subject) pairs / 2.2M judged evaluations (API and script level); TLC judges index, match text and every capture (undefined vs empty). The reference was additionally compared with V8 on the whole quick space by the builder (0 differences). Thorough adds seeded random patterns of depth <= 3.",
   design_ref="DESIGN.md 5/C09, notes/C09.md",
   note="Trusted: TLC, RegexSem as a transcription of ECMA-262 22.2.2; case folding judged on ASCII (documented). Residual recorded finding: captures/backreferences inside lookbehind (needs a backward matcher)."),
 "C10": dict(
   technique="RegexVM.tla budget model (step_limit, stack_limit, poll) model-checked by TLC; all pattern strings over the metacharacter vocabulary up to length 4/5 constructed through literal / RegExp() / new RegExp and judged by TLC (outcome typing + acceptor), catastrophic families with step counting through the hook",
   text="Model checking: RegexVM.tla invariants (every loop kind counts and polls, steps <= step_limit + 1 per attempt, stack <= stack_limit + 1, defined outcome on exhaustion). Conformance: construction of all 245 411 strings of length <= 4 over 22 regex metacharacters (thorough 5.4M of length <= 5), flag strings, huge quantifiers, thousands of groups through three channels: outcome must be a regex or a SyntaxError that a script catch receives and that reaches Python as JSError, and agree with RegexSem's pattern acceptor inside the supported syntax; catastrophic-backtracking families x subject lengths up to 10^4 with and without time limit, steps counted through the hook against the model's bound; outcome match / null / JSError family.",
   design_ref="DESIGN.md 5/C10, notes/C10.md",
   note="Trusted: TLC, hook step counts. Completing a 10^9-step match is bounded by counting, not by running."),
 "C20": dict(
   technique="LastIndex.tla / RegexApi.tla state machine (state = lastIndex) model-checked by TLC; all exec/test/assign/read histories of length 3/4 x flags x patterns x subjects replayed and trace-validated step by step by TLC; regex-driven string methods judged against RegexApi",
   text="Model checking: the lastIndex protocol over all histories <= 6 of the model (Sync of the two copies at every API return, range of lastIndex). Conformance: all histories of length 3 (quick, 17k + 192k with integer/float lastIndex variants; thorough length 4, 2.1M) over {exec, test, lastIndex = k for k in 0,1,2,len,len+1,-1,1.5,'1', read} x flags {'', g, y, gy, gi, gm} x patterns (two match empty) x subjects; each history returns [result, lastIndex] after every step and a total trace specification validates it; match/replace/replaceAll/split/search with regex arguments, replacement templates ($$ $& $` $' $n $nn) and function replacers (128k calls quick) judged by RegexApi incl. lastIndex afterwards.",
   design_ref="DESIGN.md 5/C20, notes/C20.md",
   note="Trusted: TLC, RegexSem/RegexApi as transcriptions of ECMA-262 (RegExpBuiltinExec, AdvanceStringIndex, GetSubstitution)."),
 "C13": dict(
   technique="JsGrammar.tla (precedence table, minimal-parenthesis printer, precedence-climbing parser) with round-trip laws model-checked by TLC; expression trees enumerated by TLC, parsed by the engine, trees and values judged by TLC; named rejection classes",
   text="Model checking: ParseExpr(Print(t)) = t and 'removing any printed parenthesis pair changes the tree' on all enumerated trees. Conformance: all expression trees over all operators of depth <= 2 and triples in left/right nested shapes (45k trees quick) printed with minimal parentheses, parsed by the engine's Parser and normalised: TLC judges tree equality; the same programs under seeded trivia (spaces, tabs, newlines, both comment kinds outside the restricted positions) and redundant parentheses: same tree, same value; literal spellings (number bases/fractions/exponents, string escapes, quote styles) denote equal values; rejection judged only for the classes the property names (deleted closing bracket/quote/comment or regex terminator: 2.6k; non-reference assignment/update targets, -a ** b: 2.7k).",
   design_ref="DESIGN.md 5/C13, notes/C13.md",
   note="Trusted: TLC, JsGrammar's table as ECMA-262's, the AST normaliser. The engine's tolerance of missing statement separators is not judged (property text)."),
 "C06": dict(
   technique="JsOps.tla over relational IEEE-754 predicates (Dbl.tla/BigNat.tla: correct rounding checked with exact bignum arithmetic, the engine's result as certificate) with laws model-checked by TLC; operand grid^2 x operators x assignment-target forms enumerated by TLC, judged by TLC",
   text="Model checking: laws of JsOps on the grid (a<b == b>a, == symmetric, === implies ==, NaN poisons arithmetic, typeof total, commutativity). Conformance: all pairs of a 34-value (thorough ~80) boundary grid of every primitive type x ~45 operators, all assignment-target forms (global/local/closure variable, member dotted/computed, array element) of compound and update operators, both internal number representations: 54.5k enumerated cells + 1 500 random expression trees in quick; TLC judges type, bits and sign of zero directly where the spec computes the result and through AddOK/MulOK/DivOK/FmodOK/DecimalDenotes/IsShortest where it is a rounded double or its text.",
   design_ref="DESIGN.md 5/C06, notes/C06.md",
   note="Trusted: TLC, BigNat/Dbl predicates (validated against an exact Fraction oracle on 5 449 cases in round 0), wire codec. ** with irrational exact results: only special values and exactly representable results judged."),

 "C04": dict(
   technique="LexerFSM.tla (lexer as a finite state machine over character classes: termination and position sanity model-checked by TLC) + token-sequence acceptor from JsGrammar; class strings, token soup, corpus prefixes/mutations and the discovered built-in x adversarial-argument grid run on the engine, outcome typing and error positions judged by TLC",
   text="Model checking: LexerFSM.tla over all strings over 36 character classes up to length 4 (thorough 5-6): every character consumed once, at most one epsilon move per character, positions inside the source, the named deviations explain every difference between the as-is and the reference machine. Conformance: 92.8k class strings concretised and lexed/parsed/evaluated (100k cases), every token sequence of length <= 3 (16.3k; thorough <= 4, 407k) over 25 token classes judged by the acceptor, every prefix of the corpus programs plus seeded truncations/splices/mutations, and every function-valued property discovered at run time on every receiver kind called with every argument vector of length <= 2 from the adversarial grid (211 vectors): TLC judges that the outcome is a value or a member of the JSError family (JsVal!InJSErrorFamily), that a rejection is a JSSyntaxError with line/column inside the source, and the predicted position where the spec predicts one. Quick 204k judged records.",
   design_ref="DESIGN.md 5/C04, notes/C04.md",
   note="Trusted: TLC, outcome classifier (harness/engine_child.py). Nesting deeper than the documented recursion limit is out of scope; argument vectors that legitimately allocate huge memory are excluded in the spec's Supported predicate. Recorded finding: 1.toFixed(1) accepted (kept deliberately)."),
 "C18": dict(
   technique="Dbl.tla/BigNat.tla/JsNumFmt.tla relational specification of number formatting and parsing (IsShortest, NumberLayout, IsNearestDecimal, DecimalDenotes checked with exact bignum arithmetic, the engine's text/double as certificate); double grid x formatting calls, numeric-string grammar x parsers, Math special values enumerated by TLC, judged by TLC",
   text="Model checking: laws of Dbl/JsNumFmt on the grid (round trip of shortest digits, correctly rounded parsing, functional predicates). Conformance: doubles 2^k and 10^k over the whole exponent range, neighbours of the notation thresholds, halfway cases, subnormals, 2^53 neighbours, negatives x {implicit, String(), toString(radix), toFixed, toPrecision, toExponential, JSON}; numeric strings from the StringNumericLiteral grammar (signs, white space, radix prefixes, exponents, junk) x {Number, unary +, arithmetic coercion, parseInt x radices, parseFloat}; every Math function x the special-value grid (expected classes: NaN, signed zeros, infinities, domain edges; never raise); seeded random bit patterns. Quick 28.5k judged records.",
   design_ref="DESIGN.md 5/C18, notes/C18.md",
   note="Trusted: TLC, BigNat/Dbl predicates. NOT decided (stated limit of the technique): accuracy within one ulp of transcendental Math functions away from the special points; fraction digits of toString(radix) for radices that are not powers of two (ECMA-262 leaves them implementation-approximated)."),
 "C19": dict(
   technique="JsJSON.tla (recursive-descent JParse, an independent DFA-plus-stack acceptor, JStringify with cycle detection) with round-trip and grammar-equivalence laws model-checked by TLC; token texts, near-miss mutations and value structures enumerated by TLC, judged by TLC",
   text="Model checking: Parse(Stringify(v)) = v on JSON-representable v, Stringify(Parse(t)) canonical and idempotent, JParse accepts exactly what the independent acceptor accepts on all enumerated token sequences. Conformance: all token sequences up to length 5/6 over the JSON token vocabulary (accepted and rejected alike), every single-token mutation of valid texts (trailing comma, single quotes, unquoted key, leading zero, lone minus, NaN, Infinity, undefined, control character, bad escape, truncated \\u, lone surrogate escapes), duplicate and __proto__ keys, nesting to 30; value structures of depth <= 3 over a leaf grid incl. non-representable values at every position, cycles of length 1-3: TLC judges parse results structurally (key order), rejection = SyntaxError received by a script catch, stringify text exactly, cycle = catchable TypeError. Quick ~50k judged records.",
   design_ref="DESIGN.md 5/C19, notes/C19.md",
   note="Trusted: TLC, JsJSON as a transcription of ECMA-262 25.5 / RFC 8259; number text through JsConv (shared with C18)."),

 "C08": dict(
   technique="ObjModel.tla (explicit state machine of the ECMAScript object model: heap, prototype links, accessors, constructors) model-checked by TLC; histories enumerated and simulated by TLC, replayed on the engine with every observation after every step, validated by a total TLC trace specification; call-form x function-kind table judged by TLC",
   text="Model checking: ObjModel invariants over all histories of the model (acyclic prototype chains, agreement laws between in / hasOwnProperty / keys / for-in / getPrototypeOf / reads, writes and deletes affect only the receiver as a frame condition). Conformance: all histories of length <= 2 over the full operation alphabet (4 712; thorough: 74k of length <= 3 over a core alphabet) plus TLC -simulate walks of depth 12 (384 / 2 880) and seeded random histories, each step followed by a battery of 112 observations (read, in, own-test, keys/values/entries, for-in, instanceof, typeof, getPrototypeOf) on every object: 14k steps / 656k observations judged in quick; the trace specification replays every history through the reference and the as-is model, is total (records the failing clause, adopts, continues) and evaluates ObjModel's invariants on every state. The product call form {method, plain, call, apply, bind, new, arrow} x function kind (63 cells) + new-return rules (27) + constructor chains is specified as a table in C08.tla and judged cell by cell (this, arguments, length, name).",
   design_ref="DESIGN.md 5/C08, notes/C08.md",
   note="Trusted: TLC, ObjModel as a transcription of ECMA-262 ordinary object semantics under DESIGN 4.4 (everything writable/enumerable/configurable, insertion order, no boxing). Eight structural defects are recorded findings with exact as-is rules (functions are not objects, enumeration skips accessors, arrow this/arguments, name inference, native function properties, new on non-constructors, constructor enumerable)."),
}
NOT_APPLICABLE = {}
# checks whose quick tier the lead has run green on the current /repo HEAD (three seeds); the others stay listed under
# not_applicable ("under construction") until verified
ENABLED = ["C01", "C02", "C03", "C04", "C05", "C06", "C07", "C08", "C09", "C10", "C11", "C12", "C13", "C14", "C15", "C16", "C17", "C18", "C19", "C20"]
ALL = ["C%02d" % i for i in range(1, 21)]
PENDING_REASON = "check under construction in this round: not yet claimed (no evidence produced); see DESIGN.md section 8"


def main():
    checks = []
    for pid in ALL:
        if pid not in CHECKS or pid not in ENABLED:
            continue
        c = CHECKS[pid]
        checks.append({
            "property_id": pid,
            "quick_cmd": "./check %s --tier quick" % pid,
            "thorough_cmd": "./check %s --tier thorough" % pid,
            "evidence_file": "/verif/evidence/%s.json" % pid,
            "replay_cmd_template": "./check %s --replay {path}" % pid,
            "engine": "tlc",
            "level_claimed": {"category": "model_checking", "text": c["text"], "design_ref": c["design_ref"]},
            "level_note": c["note"],
            "technique": c["technique"],
        })
    na = [{"property_id": p, "reason": NOT_APPLICABLE.get(p, PENDING_REASON)} for p in ALL if p not in CHECKS or p not in ENABLED]
    hooks_commit = subprocess.run(["git", "-C", "/repo", "log", "--format=%h", "--grep", "verification hooks"],
                                  capture_output=True, text=True).stdout.split()
    m = {
     "version": 1,
     "setup_cmd": "cd /verif && python3 -c \"import harness.cli, harness.tlc, harness.engine\" && tla-sany spec/JsVal.tla > /dev/null",
     "hooks": {
      "guard": "MICROJS_VERIF",
      "enable": "MICROJS_VERIF=1 in the environment of the engine child processes (harness/engine.py); observers are installed through microjs.vm._verif_install / microjs.regex.vm._verif_install, which refuse unless the variable is set",
      "baseline_off_cmd": "cd /repo && env -u MICROJS_VERIF /venv/bin/python -m pytest -ra -q -p no:cacheprovider --timeout=900 --continue-on-collection-errors",
      "source_commits": hooks_commit,
      "add_only": True,
     },
     "engines": [{"name": "tlc", "path": "/verif/harness/tlc.py", "serves_properties": sorted(p for p in CHECKS if p in ENABLED),
                  "kind_free_text": "TLC 1.8 model checker on explicit TLA+ specifications in /verif/spec, bound to the engine by replay (spec->code) and trace/observation judging (code->spec)"}],
     "checks": checks,
     "not_applicable": na,
     "notes": "All verdicts come from TLC runs over TLA+ specifications; Python only renders cases and records observations. Known findings: /verif/known_findings/<id>.json.",
    }
    with open(os.path.join(V, "MANIFEST.json"), "w") as f:
        json.dump(m, f, indent=1)


if __name__ == "__main__":
    main()
