"""C03 - scripts reach only JavaScript values, never host internals (DESIGN 5/C03)."""
import os, json, glob, random
from harness import tlc, engine
from harness.common import Machinery, REPO

SB_CFG = "SPECIFICATION Spec\nINVARIANT TypeOK\nINVARIANT NonInterference\nINVARIANT NoPhantom\nCHECK_DEADLOCK FALSE\n"
ENUM_CFG = "INIT EnumInit\nNEXT EnumNext\nCONSTRAINT EnumEmit\nCHECK_DEADLOCK FALSE\n"
JUDGE_CFG = "INIT JudgeInit\nNEXT JudgeNext\nCHECK_DEADLOCK FALSE\n"


def corpus(rep):
    progs = []
    for pat in ("tests/basic/*.js", "tests/compat/*.js"):
        for f in sorted(glob.glob(os.path.join(REPO, pat))):
            try:
                src = open(f, encoding="utf-8").read()
            except Exception:
                continue
            if len(src) < 60000:
                progs.append((os.path.basename(f), src))
    # programs of the other checks' families (exits through every construct, recursion shapes, places)
    from checks import c02_driver, c01_driver
    rnd = random.Random(rep.seed)
    inners = ["while", "forin", "forof", "switch", "block"]
    exits = ["none", "break", "continue", "return", "throw", "throw_midexpr", "return_midexpr", "break_outer"]
    encls = ["none", "try_catch", "try_finally", "in_catch", "finally_after_throw", "switch", "forin"]
    places = ["inline", "func_operand", "func_array", "callback", "getter", "ctor"]
    n = 60 if rep.tier == "quick" else 400
    for i in range(n):
        b = {"inner": rnd.choice(inners), "exit": rnd.choice(exits), "encl": rnd.choice(encls), "place": rnd.choice(places)}
        if b["exit"] in ("return", "return_midexpr") and b["place"] == "inline":
            continue
        progs.append(("c02:%d" % i, c02_driver.render_program(b, 3)))
    # every body of C02.tla's family (inner construct x way out x enclosure x place), as enumerated by TLC for this tier:
    # whatever an abrupt exit leaves on the operand stack becomes an operand of the enclosing expression
    en = tlc.run(rep.pid, "C02", ENUM_CFG, env={"TIER": rep.tier}, timeout=900, tag="enum_c02_bodies")
    seen_b = set()
    for c in en.records:
        if c.get("kind") == "body":
            key = json.dumps(c["b"], sort_keys=True)
            if key not in seen_b:
                seen_b.add(key)
                progs.append(("c02b:" + "/".join(c["b"][k] for k in ("inner", "exit", "encl", "place")), c02_driver.render_program(c["b"], 2)))
    if len(seen_b) < 100:
        raise Machinery("C02 body enumeration too small: %d" % len(seen_b))
    for name, src in c02_driver.SHAPES.items():
        progs.append(("shape:" + name, src.replace("n++;", "n++; if (n>20) return 0;")))
    extra = [
        ("pow-complex", "var a = Math.pow(-8, 1/3); var b = (-8) ** (1/3); [a, b]"),
        ("big-int", "var a = 2 ** 1024; var b = Math.pow(2, 2000); var c = 1e308 * 10; [a, b, c]"),
        ("error-fields", "var e = new Error('m'); [e.lineNumber, e.columnNumber, e.stack, e.name]"),
        ("caught-fields", "var r; try { null.x } catch (e) { r = [e.lineNumber, e.columnNumber, e.message] } r"),
        ("forin-return", "function h(o){ for (var k in o) { return k } } var z = [h({a:1}), 1 + h({b:2})]; z"),
        ("regex-exec", "var m = /(a)(b)?/.exec('ac'); [m[0], m[1], m[2], m.index, m.input]"),
        ("typed", "var t = new Float64Array(2); t[0] = 1.5; [t[0], t.length, t.buffer.byteLength]"),
        ("date", "[typeof Date.now(), typeof Math.random()]"),
        ("json", "JSON.parse('{\"a\":[1,2,{\"b\":null}]}')"),
        ("args", "(function(){ return [arguments.length, arguments[0], arguments] })(1, 'x')"),
        ("hostcall", "hostfn(1, 'a', null, undefined, [1], {k: 2}, function(){})"),
        ("int-div", "[7/2, 6/2, 2**31, 2**53, -0, 0/0, 1/0, 5%3, 2**-1]"),
        ("bitops", "[1<<31, 1>>>0, -1>>>0, ~5, 5&3, 5|3, 5^3]"),
        ("parse", "[parseInt('12'), parseFloat('1.5'), Number('0x10'), Number(''), +'1e3', parseInt('zz')]"),
        ("str-num", "['5'*'2', '5'-2, 5+'', '1'+1, 10/'4']"),
    ]
    progs.extend(extra)
    return progs


def run(rep):
    quick = rep.tier == "quick"
    # 1. reference model of property access: NonInterference, NoPhantom, TypeOK
    r = tlc.run(rep.pid, "Sandbox", SB_CFG, timeout=1200, tag="sandbox", coverage=True)
    rep.add_tlc("Sandbox", r)
    # 2. enumerate receiver kinds x access forms; fetch the list of legitimate JavaScript property names
    en = tlc.run(rep.pid, "C03", ENUM_CFG, env={"TIER": rep.tier}, timeout=600, tag="enum")
    rep.add_tlc("C03.Enum", en)
    legit, combos, probes = None, set(), []
    for c in en.records:
        if "legit" in c:
            legit = set(c["legit"])
        elif "probe" in c:
            if c["probe"] not in probes:
                probes.append(c["probe"])
        else:
            combos.add((c["recv"], c["form"]))
    if legit is None or len(combos) < 300:
        raise Machinery("enumeration incomplete")
    # 3. harvest internal names from the current tree
    hv = engine.run_cases(rep.pid, [{"id": "h", "kind": "harvest"}], driver="checks.c03_driver:driver", procs=1, tag="harvest")
    names = [n for n in hv[0]["names"] if n not in legit]
    if len(names) < 200:
        raise Machinery("harvest too small: %d" % len(names))
    rep.notes["harvested_names"] = len(names)
    rnd = random.Random(rep.seed)
    if quick:
        core = [n for n in names if n.startswith("_")]
        rest = [n for n in names if not n.startswith("_")]
        rnd.shuffle(core); rnd.shuffle(rest)
        names_used = sorted(core[:70] + rest[:30])
    else:
        names_used = names
    fresh = ["zq%dx%d" % (rnd.randrange(10 ** 6), i) for i in range(7)] + ["__zq%d__" % rnd.randrange(10 ** 6), "_zq%d" % rnd.randrange(10 ** 6)]
    cases = []
    for (recv, form) in sorted(combos):
        for k in range(0, len(names_used), 40):
            cases.append({"id": "%s|%s|%d" % (recv, form, k), "kind": "pairs", "recv": recv, "form": form,
                          "names": names_used[k:k + 40], "fresh": fresh})
    progs = corpus(rep)
    for i, (nm, src) in enumerate(progs):
        cases.append({"id": "t%d:%s" % (i, nm), "kind": "trace", "src": src})
    from checks import c03_driver
    if len(probes) < 150:
        raise Machinery("too few probes: %d" % len(probes))
    for i, q in enumerate(probes):
        cases.append({"id": "p%d:%s" % (i, "/".join(str(q[k]) for k in sorted(q))), "kind": "probe", "src": c03_driver.render_probe(q),
                      "nocalls": q["fam"] == "rebind" and q["val"] != "hostfn.bind(null)" or q["fam"] == "rebind"})
    rep.spaces.append({"space": "probes: callback this/arguments, match results, conversions, call forms, None-returning host function, JSON callbacks",
                       "cases": len(probes), "complete": not quick})
    cases.append({"id": "retprobe", "kind": "ret_probe"})
    cand = sorted(legit | {n for n in hv[0]["names"] if not n.startswith("_")})
    for recv in sorted(c03_driver.RECV):
        if recv in ("null", "undefined"):
            continue
        cases.append({"id": "cg:" + recv, "kind": "call_grid", "recv": recv, "names": cand})
    rnd.shuffle(cases)
    results = engine.run_cases(rep.pid, cases, driver="checks.c03_driver:driver", timeout=3000)
    rep.spaces.append({"space": "receiver kind x access form x harvested internal name (paired with a fresh name)",
                       "cases": sum(1 for r in results if r.get("kind") == "pair"), "complete": not quick})
    rep.spaces.append({"space": "observable-value kinds over corpus + generated programs", "cases": len(progs), "complete": True})
    recs = []
    for r in results:
        if r["kind"] == "pair":
            recs.append({k: r[k] for k in ("id", "kind", "a", "b", "hostcalls_a", "hostcalls_b", "calls_expected")})
        elif r["kind"] == "trace":
            recs.append({"id": r["id"], "kind": "trace", "seen": r["seen"]})
            if r["id"].startswith("callgrid:") and r.get("o") in ("host", "hang"):
                pass        # a host exception inside the grid is C04's subject; the kinds seen so far are still judged
        else:
            recs.append({"id": r["id"], "kind": "ret", "v": r["v"]})
    verdicts, st, tr, _ = tlc.judge(rep.pid, "C03", recs, JUDGE_CFG)
    rep.add_judge(len(recs), st, tr)
    byid = {r["id"]: r for r in results}
    for v in verdicts:
        r = byid[v["id"]]
        if v["v"] == "pass":
            if r["kind"] == "pair" and len(rep.samples) < 4 and hash(r["id"]) % 1999 == 0:
                rep.sample({"pair": r["id"], "internal": r["a"], "fresh": r["b"]})
            if r["kind"] == "trace" and len(rep.samples) < 6 and r["id"].startswith("t1:"):
                rep.sample({"trace": r["id"], "kinds": r["seen"][:12]})
            continue
        detail = dict(r)
        detail["verdict"] = v["v"]
        dev = ""
        if r["kind"] in ("trace", "ret"):
            dev = classify_host_value(r)
        rep.mismatch(r["id"], detail, dev=dev)
    rep.exhaustive = not quick
    rep.evaluations = len(recs)
    rep.assumptions += ["a harvested name listed in C03.tla!Legit is a JavaScript property of some receiver kind, not an internal",
                        "observable positions: operands of STORE_*, SET_PROP, RETURN, THROW, CALL*/NEW arguments, BUILD_ARRAY/BUILD_OBJECT elements (hook)"]


def classify_host_value(r):
    """named deviations for host values reaching scripts (identified by the kind of value and where it appears)"""
    return ""
