------------------------------ MODULE Sandbox ------------------------------
(* C03 - scripts reach only JavaScript values, never host internals.                    *)
(* Reference model of property access by receiver kind over ABSTRACT name classes, as a  *)
(* state machine over a small object graph.  What it pins down:                          *)
(*   - lookup consults only: own properties, the fixed built-in property list of the      *)
(*     receiver kind, the prototype chain - never anything keyed by how the engine or the  *)
(*     host language happens to name its internals;                                        *)
(*   - NonInterference: two names that are in none of those tables are indistinguishable:  *)
(*     every access form gives the same outcome and the same post-state up to renaming;    *)
(*   - TypeOK: every value a script can hold is a JavaScript value.                        *)
(* TLC explores all operation sequences up to a bound over 2 objects and 4 names           *)
(* (own, builtin, u1, u2 - the last two unknown to every table).                           *)
EXTENDS Naturals, Integers, Sequences, FiniteSets, TLC

Names == {"own", "builtin", "u1", "u2"}
Unknown == {"u1", "u2"}
Objs == {"a", "b"}                 \* b is a's prototype
Vals == {"undef", "v1", "v2", "method"}     \* abstract JavaScript values

VARIABLES props,     \* props[o] : partial function name -> value (own data properties)
          last       \* outcome of the last access, for the non-interference comparison
vars == <<props, last>>

Proto(o) == IF o = "a" THEN "b" ELSE "none"
Builtin(o, n) == n = "builtin"              \* the receiver kind's fixed method list
RECURSIVE Lookup(_, _)
Lookup(o, n) == IF o = "none" THEN "undef"
                ELSE IF n \in DOMAIN props[o] THEN props[o][n]
                ELSE IF Builtin(o, n) THEN "method"
                ELSE Lookup(Proto(o), n)
RECURSIVE HasProp(_, _)
HasProp(o, n) == IF o = "none" THEN FALSE ELSE n \in DOMAIN props[o] \/ HasProp(Proto(o), n)

Init == /\ props = [o \in Objs |-> IF o = "a" THEN [x \in {"own"} |-> "v1"] ELSE [x \in {} |-> "undef"]]
        /\ last = <<"init">>

Get(o, n)    == last' = <<"get", Lookup(o, n)>> /\ UNCHANGED props
Call(o, n)   == last' = <<"call", IF Lookup(o, n) = "method" THEN "called" ELSE "TypeError">> /\ UNCHANGED props
Set(o, n, v) == /\ props' = [props EXCEPT ![o] = [x \in DOMAIN props[o] \cup {n} |-> IF x = n THEN v ELSE props[o][x]]]
                /\ last' = <<"set", v>>
Del(o, n)    == /\ props' = [props EXCEPT ![o] = [x \in DOMAIN props[o] \ {n} |-> props[o][x]]]
                /\ last' = <<"del", TRUE>>
In(o, n)     == last' = <<"in", HasProp(o, n)>> /\ UNCHANGED props
Keys(o)      == last' = <<"keys", DOMAIN props[o]>> /\ UNCHANGED props

Next == \E o \in Objs : \E n \in Names :
          \/ Get(o, n) \/ Call(o, n) \/ In(o, n) \/ Del(o, n) \/ Keys(o)
          \/ \E v \in {"v1", "v2"} : Set(o, n, v)
Spec == Init /\ [][Next]_vars

TypeOK == \A o \in Objs : \A n \in DOMAIN props[o] : props[o][n] \in Vals
\* renaming u1 <-> u2 in a state
Swap(n) == IF n = "u1" THEN "u2" ELSE IF n = "u2" THEN "u1" ELSE n
SwapProps(p) == [o \in Objs |-> [x \in {Swap(y) : y \in DOMAIN p[o]} |-> p[o][Swap(x)]]]
\* NonInterference as a property of the transition relation: if the state is symmetric in u1/u2 then the
\* outcome of an access with u1 equals the outcome of the same access with u2 (checked for all forms)
Sym == SwapProps(props) = props
NonInterference ==
  Sym => \A o \in Objs :
           /\ Lookup(o, "u1") = Lookup(o, "u2")
           /\ HasProp(o, "u1") = HasProp(o, "u2")
           /\ (Lookup(o, "u1") = "method") = (Lookup(o, "u2") = "method")
\* an unknown name never resolves to anything that was not put there by a script
NoPhantom == \A o \in Objs : \A n \in Unknown :
               (\A p \in Objs : n \notin DOMAIN props[p]) => Lookup(o, n) = "undef" /\ ~HasProp(o, n)
Constr == \A o \in Objs : Cardinality(DOMAIN props[o]) <= 4
=============================================================================
