-------------------------------- MODULE C18 --------------------------------
(* C18 - numbers print, parse and round as IEEE doubles the ECMAScript way.     *)
(*   Grids  : doubles (powers of 2 and 10 over the whole exponent range, their   *)
(*            neighbours, notation thresholds, halfway cases), numeric strings   *)
(*            from a grammar, the Math special-value grid                        *)
(*   Enum   : formatting calls x doubles, parsers x strings, Math x specials     *)
(*   Laws   : round trips and relational/functional agreement of the reference   *)
(*   Judge  : records observed on the real engine                                *)
EXTENDS JsNumFmtAsIs, Json, IOUtils

S(txt) == VStr(U(txt))
ND(txt) == StrToD(U(txt))
Tier == IF "TIER" \in DOMAIN IOEnv THEN IOEnv.TIER ELSE "quick"
Quick == Tier = "quick"
Range(a, b, step) == {a + step * j : j \in 0..((b - a) \div step)}

\* ---------------- double grid ------------------------------------------------------------------
Pow2Exps == IF Quick THEN {-1074, -1073, -1023, -1022, -1021, -537, -100, -53, -20, -7, -1, 0, 1, 2, 10, 31, 32, 52, 53, 54, 63, 64, 69, 70, 100, 1023}
            ELSE Range(-1074, 1023, 7) \cup {-1073, -1023, -1022, -1021, -53, -1, 0, 1, 31, 32, 52, 53, 54, 63, 64, 69, 70, 1023}
Pow10Exps == IF Quick THEN {-323, -308, -100, -22, -8, -7, -6, -5, -4, -1, 0, 1, 2, 15, 16, 17, 20, 21, 22, 23, 100, 308}
             ELSE Range(-323, 308, 3) \cup {-8, -7, -6, -5, -4, -1, 0, 1, 2, 15, 16, 17, 20, 21, 22, 23}
Seeds == {DPow2(k) : k \in Pow2Exps} \cup {DOfDecimal(0, BnOne, k) : k \in Pow10Exps}
WithNeighbours(ds) == ds \cup {DNextMag(d) : d \in ds} \cup {DPrevMag(d) : d \in ds}
SpecialTexts == <<"NaN", "Infinity", "0", "0.5", "1.5", "2.5", "0.1", "0.3", "1.005", "1.45", "8.345", "0.045", "9.5", "99.5", "0.95", "123.456",
                  "0.000001234", "1.234e-7", "9.999999e-7", "0.5e-6", "123456789", "255", "255.5", "255.75", "0.125", "0.375", "35", "36",
                  "9007199254740991", "9007199254740993", "9007199254740994", "999999999999999900000", "1000000000000000100000",
                  "1.7976931348623157e308", "2.2250738585072014e-308", "2.225073858507201e-308", "5e-324", "4294967296.5", "1e23", "8.41e21",
                  "0.30000000000000004", "1.2e21", "4.35", "0.000001", "0.0000001", "100", "120", "1e300", "1e-300", "12345.6789", "0.5555555555555555",
                  "3.141592653589793", "2147483647", "4294967295", "65535.5", "1e15", "123456789012345680000", "0.1e-6", "7", "1000000">>
Specials == {ND(SpecialTexts[j]) : j \in 1..Len(SpecialTexts)}
Positive == {d \in (IF Quick THEN Seeds \cup {DNextMag(d) : d \in Seeds} ELSE WithNeighbours(Seeds)) \cup Specials : d.c # "inf" \/ d.s = 0}
NegSubset == {d \in Specials \cup {DPow2(k) : k \in {-1074, -1, 0, 53, 70, 1023}} : d.c # "nan"}
DoubleSet == Positive \cup {DNeg(d) : d \in NegSubset}
\* values whose expansion in another radix stays short
RadixOK(d) == d.c # "fin" \/ (d.e >= -60 /\ d.e + BnBitLen(d.m) <= 90)

Nm(i) == VInt(i)
FixedArgs == IF Quick THEN {0, 1, 2, 5, 10, 20} ELSE (0..21) \cup {50, 100}
PrecArgs == IF Quick THEN {1, 2, 3, 5, 16, 17, 21} ELSE (1..22) \cup {50, 100}
ExpArgs == IF Quick THEN {0, 1, 2, 5, 16, 20} ELSE (0..21) \cup {50, 100}
\* the quick tier asks for 100 digits only on a few receivers (each costs bignum work with 10^400)
LongReceivers == {ND("0.1"), ND("5e-324"), ND("1.7976931348623157e308"), ND("123.456"), ND("1e21"), ND("0")}
RadixArgs == IF Quick THEN {2, 3, 8, 10, 16, 32, 36} ELSE 2..36
OddArgs == {Nm(-1), Nm(101), VNumW(WNaN), VNumW(WPosInf), S("2"), VNumW(DToW(ND("1.9"))), Undef, Null, Nm(37), Nm(1)}
OddReceivers == {ND("1.5"), ND("0"), ND("NaN"), ND("Infinity"), ND("-1e21"), ND("123.456")}
FmtCalls(d) ==
  {[m |-> mm, a |-> <<>>] : mm \in {"implicit", "String", "toString", "json", "toFixed", "toExponential", "toPrecision"}}
  \cup {[m |-> "toFixed", a |-> <<Nm(f)>>] : f \in FixedArgs}
  \cup {[m |-> "toPrecision", a |-> <<Nm(p)>>] : p \in PrecArgs}
  \cup {[m |-> "toExponential", a |-> <<Nm(f)>>] : f \in ExpArgs}
  \cup (IF Quick /\ d \in LongReceivers THEN {[m |-> mm, a |-> <<Nm(100)>>] : mm \in {"toFixed", "toExponential", "toPrecision"}} ELSE {})
  \cup (IF RadixOK(d) THEN {[m |-> "toString", a |-> <<Nm(r)>>] : r \in RadixArgs} ELSE {})
  \cup (IF d \in OddReceivers THEN {[m |-> mm, a |-> <<v>>] : mm \in {"toString", "toFixed", "toExponential", "toPrecision"}, v \in OddArgs} ELSE {})

\* ---------------- numeric strings from the grammar ----------------------------------------------
WsPre == IF Quick THEN {<<>>, <<32>>, <<65279, 10>>} ELSE {<<>>, <<32>>, <<9, 10>>, <<65279>>, <<28>>, <<160, 8232>>}
Signs == {<<>>, <<43>>, <<45>>}
Suffixes == IF Quick THEN {<<>>, <<32>>, <<120>>} ELSE {<<>>, <<32>>, <<120>>, <<101>>, <<46>>, <<95, 49>>, <<44, 53>>, <<32, 49>>}
BodyTexts == <<"0", "1", "12", "007", "1.5", ".5", "5.", "1e3", "1E3", "1e+3", "1e-3", "1.5e300", "1e309", "1e-324", "5e-324",
               "2.4703282292062327e-324", "2.4703282292062328e-324", "1.7976931348623157e308", "1.7976931348623158e308",
               "1.797693134862315808e308", "9007199254740993", "9007199254740992.5", "0.1", "0.30000000000000004", "123456789012345678",
               "Infinity", "Infinit", "infinity", "inf", "NaN", "0x1f", "0X1F", "0xg", "0x", "0b101", "0b2", "0o17", "0o8", "1_000", "", "e5", ".",
               "abc", "0.0000001", "1e21", "1e-7", "00", "0e0", "0xe", "1e1000", "4.35", "2.5e-1", "12e", "1.e1", "1..5", "1e1.5", "0.0">>
NumStrings == {w \o sg \o U(BodyTexts[j]) \o sf : w \in WsPre, sg \in Signs, j \in 1..Len(BodyTexts), sf \in Suffixes}
Parsers == {"Number", "plus", "minus0", "times1", "parseFloat", "parseInt"}
RadixTexts == <<"10", "z", "Zz", "19", "1f", "0x1f", "0X1f", "101", "8", "08", "-7", "+7", " 7", "7 ", "12abc", "", "g", "2147483648",
                "123456789012345678", "0.9", "1e3", "-0", "0", "00", "0x", "-0x10", "77777777777777777", "zzzzzzzzzz", "1_0">>
RadixVals == {Nm(r) : r \in (0 - 1)..38} \cup {VNumW(DToW(ND("4294967298"))), VNumW(DToW(ND("16.9"))), VNumW(WNaN), VNumW(WPosInf),
              VNumW(DToW(ND("-4294967280"))), S("16"), S("0x10"), Null, VBool(TRUE), Undef}

\* ---------------- number -> text at property-name sites, numeric literals as written ----------------
\* a number names a property through ToString wherever it is used as a key (member access, computed key, Array join),
\* and a NumericLiteral written as a property name is named ToString of its value (ECMA-262 13.2.5.4)
KeySites == {"keyMember", "keyComputed", "join"}
LitForms == {"literal", "keyLiteral", "getterFound"}
LitExp(ex, up, plus) == <<IF up THEN 69 ELSE 101>> \o (IF ex < 0 THEN <<45>> ELSE IF plus THEN <<43>> ELSE <<>>) \o DigitsOf(IF ex < 0 THEN 0 - ex ELSE ex)
\* spellings of a non-negative finite double as a source literal: the ECMAScript text, scientific, integer mantissa with
\* E+/E-, plain integer with ".0" / ".", fraction without the leading 0, all digits of a long integer
Spellings(d) ==
  IF d.c = "zero" THEN {U("0"), U("0.0"), U("0."), U(".0"), U("0e0"), U("0E+5")}
  ELSE LET sh == DShortest(d)
           digs == CvDigitUnits(sh.s)
           kk == sh.k
           nn == sh.n
           txt == NumberLayout(digs, kk, nn)
           sci == (IF kk = 1 THEN digs ELSE <<digs[1], 46>> \o SubSeq(digs, 2, kk)) \o LitExp(nn - 1, FALSE, FALSE)
           man == digs \o LitExp(nn - kk, TRUE, TRUE)
       IN {txt, sci, man}
          \cup (IF kk <= nn /\ nn <= 21 THEN {txt \o <<46, 48>>, txt \o <<46>>} ELSE {})
          \cup (IF -6 < nn /\ nn <= 0 THEN {Tail(txt)} ELSE {})
          \cup (IF DIsInteger(d) /\ nn <= 25 THEN {CvDigitUnits(DTruncMag(d))} ELSE {})
LitApplies(d) == (d.c = "zero" \/ d.c = "fin") /\ d.s = 0
LitsOf(d) == IF LitApplies(d) THEN Spellings(d) ELSE {}

\* ---------------- long digit strings (length is a dimension of the grammar) ---------------------------
\* zeros^z sig zeros^t in a radix: digit counts around and beyond 1000 / 2000 / 4300, values that stay finite
\* (leading zeros; binary strings of up to 1024 digits), round at 53 / 54 bits, or overflow
Rep(c, n) == [lg_j \in 1..n |-> c]
Ones(n) == Rep(49, n)
LongSpecs == <<
  [r |-> 2, sigs |-> {<<49>>, <<49, 49>>, Ones(53), Ones(54)},
   zs |-> IF Quick THEN {0, 999} ELSE {0, 1, 999, 1000, 1999}, ts |-> IF Quick THEN {0, 970, 971, 1000} ELSE {0, 946, 947, 960, 970, 971, 999, 1000, 1023, 2000}],
  [r |-> 10, sigs |-> {<<49>>, U("1234567890"), U("17976931348623157")},
   zs |-> IF Quick THEN {0, 995, 1990, 4400} ELSE {0, 990, 995, 999, 1000, 1990, 2999, 4400}, ts |-> IF Quick THEN {0, 20, 292} ELSE {0, 1, 20, 291, 292, 1000}],
  [r |-> 16, sigs |-> {U("ff"), U("1fffffffffffff"), U("3FFFFFFFFFFFFF")},
   zs |-> IF Quick THEN {999} ELSE {998, 999, 1000, 1999}, ts |-> IF Quick THEN {0, 242, 243} ELSE {0, 1, 242, 243, 256}],
  [r |-> 36, sigs |-> {U("zzzzzzzzzz"), U("Z")}, zs |-> IF Quick THEN {990, 999} ELSE {989, 990, 991, 999, 1000, 1998}, ts |-> {0}],
  [r |-> 4, sigs |-> {U("3"), U("123")}, zs |-> IF Quick THEN {} ELSE {0, 999}, ts |-> {0, 500, 510, 511}],
  [r |-> 8, sigs |-> {U("7"), U("17")}, zs |-> IF Quick THEN {} ELSE {0, 999}, ts |-> {0, 340, 341}],
  [r |-> 32, sigs |-> {U("v"), U("1v")}, zs |-> IF Quick THEN {} ELSE {999, 1000}, ts |-> {0, 203, 204}],
  [r |-> 3, sigs |-> {U("2"), U("1202")}, zs |-> IF Quick THEN {} ELSE {998, 1000}, ts |-> {0, 20}] >>
LongBody(sp, sig, t) == sig \o Rep(48, t)
LongShapes(sp) == {[z |-> z, sig |-> sig, t |-> t] : z \in sp.zs, sig \in sp.sigs, t \in sp.ts}
IsLong(sh) == sh.z + Len(sh.sig) + sh.t >= 990
LongSigns == {<<>>, <<45>>}
LongText(sg, sh) == sg \o Rep(48, sh.z) \o sh.sig \o Rep(48, sh.t)
\* radix-10 texts are also read by the parsers that take no radix
LongCalls(sp) ==
  {[m |-> "parseInt", a |-> <<VStr(LongText(sg, sh)), Nm(sp.r)>>] : sg \in LongSigns, sh \in {x \in LongShapes(sp) : IsLong(x)}}
  \cup (IF sp.r = 10 THEN {[m |-> mm, a |-> <<VStr(LongText(sg, sh))>>] : mm \in {"Number", "plus", "parseFloat", "parseInt"},
                                                                         sg \in LongSigns, sh \in {x \in LongShapes(sp) : IsLong(x)}} ELSE {})
                  \cup (IF sp.r = 16 THEN {[m |-> "parseInt", a |-> <<VStr(sg \o <<48, 120>> \o LongText(<<>>, sh))>>] : sg \in LongSigns, sh \in {x \in LongShapes(sp) : IsLong(x)}} ELSE {})

\* ---------------- Math special-value grid -----------------------------------------------------------
MathTexts == <<"NaN", "0", "-0", "Infinity", "-Infinity", "1", "-1", "0.5", "-0.5", "1.5", "-1.5", "2.5", "-2.5", "0.49999999999999994",
               "2", "-2", "3", "1e300", "-1e300", "5e-324", "2147483648", "4294967296", "4294967295", "9007199254740992", "9007199254740991",
               "-2147483649", "1000", "-1000", "710", "0.3", "1e-7", "4503599627370495.5", "-4503599627370495.5", "0.1", "-0.1", "1e40", "3.4028235677973366e38",
               "1e-46", "7", "-8">>
MathVals == {VNumW(DToW(ND(MathTexts[j]))) : j \in 1..Len(MathTexts)}
MathSmall == {VNumW(DToW(ND(t))) : t \in {"NaN", "0", "-0", "Infinity", "-Infinity", "1", "-1", "0.5", "-8", "2", "3", "1e300", "5e-324", "4294967295", "-0.5"}}
MathOdd == {Undef, Null, VBool(TRUE), S("4"), S("x"), S("")}
MathUnaryArgs(fn) == {<<v>> : v \in MathVals \cup MathOdd} \cup {<<>>}
MathBinaryArgs(fn) == {<<v, w>> : v \in (IF Quick THEN MathSmall ELSE MathVals), w \in (IF Quick THEN MathSmall ELSE MathVals)} \cup {<<>>}
                      \cup {<<v>> : v \in MathSmall} \cup {<<v, w>> : v \in MathOdd, w \in MathOdd}
MathVariadicArgs(fn) == {<<>>} \cup {<<v>> : v \in MathSmall \cup MathOdd} \cup {<<v, w>> : v \in MathSmall, w \in MathSmall}
                        \cup {<<v, w, z>> : v \in {Nm(1), VNumW(WNaN), VNumW(WNegZero)}, w \in {Nm(2), VNumW(WPosZero), VNumW(WPosInf)}, z \in {Nm(0), VNumW(WNaN), VNumW(WNegInf)}}
MathArgs(fn) == IF fn \in MathUnary THEN MathUnaryArgs(fn) ELSE IF fn \in MathBinary THEN MathBinaryArgs(fn) ELSE MathVariadicArgs(fn)

\* ---------------- rounding thresholds of the Math functions that round to a coarser format (family Rnd) ----------
\* A function that rounds to a format has one threshold between every two adjacent members of the format; the grid is
\* derived from the format, not hand-picked.  binary32: the member q * 2^e (q < 2^24; e = -149 for subnormals and the
\* smallest normals, else 2^23 <= q), the midpoint (2q + 1) * 2^(e-1) to its successor, and the doubles adjacent to
\* both - so every "just below / at / just above the tie" is present, at even and odd q (ties to even go both ways),
\* at the underflow tie 2^-150, among subnormals, and at the overflow tie above FLT_MAX = (2^24 - 1) * 2^104.
RndAround(d) == {d, DPrevMag(d), DNextMag(d)}
RndBothSigns(ds) == ds \cup {DNeg(d) : d \in ds}
RndF32Member(q, e) == IF q = 0 THEN DZero(0) ELSE DRoundDy(0, BnOfInt(q), e, FALSE)
RndF32Mid(q, e) == DRoundDy(0, BnOfInt(2 * q + 1), e - 1, FALSE)
RndF32SubQs == {0, 1, 2, 3, 8388607}
RndF32NormQs == IF Quick THEN {8388608, 8388609, 16777214, 16777215} ELSE {8388608, 8388609, 8388610, 12582911, 12582912, 16777213, 16777214, 16777215}
RndF32Exps == IF Quick THEN {-149, -23, 0, 104} ELSE Range(-149, 104, 11) \cup {-148, -24, -23, -1, 0, 1, 29, 103, 104}
RndF32Points == {<<q, -149>> : q \in RndF32SubQs} \cup {<<q, e>> : q \in RndF32NormQs, e \in RndF32Exps}
RndF32Vals == RndBothSigns(UNION {RndAround(RndF32Member(pt[1], pt[2])) \cup RndAround(RndF32Mid(pt[1], pt[2])) : pt \in RndF32Points})
\* integers: n = 2^k + j, n + 1/2, and the doubles adjacent to both (floor / ceil / round / trunc change at n or at
\* n + 1/2; ToUint32 of clz32 / imul wraps at 2^32; beyond 2^52 every double is an integer)
RndIntExps == IF Quick THEN {0, 1, 23, 31, 32, 52, 53} ELSE {0, 1, 2, 3, 10, 23, 24, 30, 31, 32, 33, 51, 52, 53, 54, 63, 64}
RndHalf == DPow2(-1)
RndIntSeeds == {DAdd(DPow2(k), DOfSmallInt(j)) : k \in RndIntExps, j \in {-1, 0, 1}}
RndIntVals == RndBothSigns(UNION {RndAround(n) \cup RndAround(DAdd(n, RndHalf)) : n \in RndIntSeeds})
RndIntFns == {"floor", "ceil", "round", "trunc", "clz32"}
RndArgs(fn) == CASE fn = "fround" -> {<<NumV(v)>> : v \in RndF32Vals}
                 [] fn \in RndIntFns -> {<<NumV(v)>> : v \in RndIntVals}
                 [] fn = "imul" -> {<<NumV(v), Nm(3)>> : v \in RndIntVals} \cup {<<Nm(3), NumV(v)>> : v \in RndIntVals}
                 [] OTHER -> {}

\* ---------------- Enum ----------------------------------------------------------------------------------
VARIABLES ph, cur, rec_i
vars == <<ph, cur, rec_i>>
NoCur == [g |-> "", v |-> 0]
EnumInit == ph = "start" /\ cur = NoCur /\ rec_i = 0
\* two levels, so that the cases (and their laws) spread over the TLC workers
NBuckets == 16
Bucket(dd) == (((dd.e % NBuckets) + NBuckets) + BnLimb(dd.m, 1) + BnLimb(dd.m, 4)) % NBuckets
EnumNext ==
  \/ /\ ph = "start" /\ ph' = "bucket" /\ UNCHANGED rec_i
     /\ \E bk \in 0..(NBuckets - 1) : cur' = [g |-> "bucket", v |-> bk]
  \/ /\ ph = "bucket" /\ ph' = "case" /\ UNCHANGED rec_i
     /\ \/ \E dd \in DoubleSet : Bucket(dd) = cur.v /\ cur' = [g |-> "fmt", v |-> dd]
        \/ \E bi \in 1..Len(BodyTexts) : bi % NBuckets = cur.v /\ cur' = [g |-> "parse", v |-> bi]
        \/ \E ri \in 1..Len(RadixTexts) : ri % NBuckets = cur.v /\ cur' = [g |-> "radix", v |-> ri]
        \/ \E fn \in MathNames : Len(fn) % NBuckets = cur.v /\ cur' = [g |-> "math", v |-> fn]
        \/ \E li \in 1..Len(LongSpecs) : li % NBuckets = cur.v /\ cur' = [g |-> "long", v |-> li]
EnumEmit ==
  IF ph # "case" THEN TRUE
  ELSE CASE cur.g = "fmt" -> LET d == cur.v IN PrintT(ToJson([g |-> "fmt", x |-> NumV(d), calls |-> FmtCalls(d), sites |-> KeySites,
                                                                    forms |-> LitForms, lits |-> LitsOf(d)]))
         [] cur.g = "parse" -> PrintT(ToJson([g |-> "parse", parsers |-> Parsers,
                                  strs |-> {w \o sg \o U(BodyTexts[cur.v]) \o sf : w \in WsPre, sg \in Signs, sf \in Suffixes}]))
         [] cur.g = "radix" -> PrintT(ToJson([g |-> "radix", str |-> U(RadixTexts[cur.v]), radixes |-> RadixVals]))
         [] cur.g = "math" -> PrintT(ToJson([g |-> "math", fn |-> cur.v, args |-> MathArgs(cur.v), rnd |-> RndArgs(cur.v)]))
         [] cur.g = "long" -> PrintT(ToJson([g |-> "long", calls |-> LongCalls(LongSpecs[cur.v])]))

\* ---------------- expected behaviour of one call -----------------------------------------------------
Expected(g, m, x, a) ==
  CASE g = "fmt" ->
         (CASE m \in {"implicit", "String"} -> FText(NumToText(x))
            [] m = "toString" -> ToStringRadix(x, a)
            [] m = "json" -> JsonNumber(x)
            [] m = "toFixed" -> ToFixed(x, a)
            [] m = "toExponential" -> ToExponential(x, a)
            [] m = "toPrecision" -> ToPrecision(x, a))
    [] g = "parse" ->
         (CASE m = "Number" -> NumberFn(a)
            [] m = "plus" -> FVal(ToNumberV(a[1]))
            [] m = "minus0" -> FVal(BinOp("-", a[1], VInt(0)))
            [] m = "times1" -> FVal(BinOp("*", a[1], VInt(1)))
            [] m = "parseFloat" -> ParseFloat(a)
            [] m = "parseInt" -> ParseInt(a))
    [] g = "math" -> MathFn(m, a)
    [] g = "key" -> FText(NumToText(x))                                       \* the property name / the joined element
    [] g = "lit" -> (CASE m = "literal" -> FVal(NumV(x))                      \* a[1] spells x (LitLaws)
                       [] m = "keyLiteral" -> FText(NumToText(x))
                       [] m = "getterFound" -> FVal(VInt(7)))                 \* ({get <literal>() { return 7 }})[x]
    [] g = "long" -> (CASE m = "Number" -> NumberFn(a)
                        [] m = "plus" -> FVal(ToNumberV(a[1]))
                        [] m = "parseFloat" -> ParseFloat(a)
                        [] m = "parseInt" -> ParseInt(a))
\* the relational specification on the text the implementation produced (finite receivers)
SmallArg(a) == Len(a) = 1 /\ a[1].k = "num" /\ WIsSmallInt(a[1].w)
RelApplies(m, x, a) ==
  /\ x.c = "fin"
  /\ \/ m \in {"implicit", "String", "json"} \/ (m = "toString" /\ a = <<>>)
     \/ (m = "toFixed" /\ SmallArg(a) /\ WTruncClamp(a[1].w) \in 0..100 /\ ~DGe1e21(x))
     \/ (m = "toPrecision" /\ SmallArg(a) /\ WTruncClamp(a[1].w) \in 1..100)
     \/ (m = "toExponential" /\ SmallArg(a) /\ WTruncClamp(a[1].w) \in 0..100)
RelText(m, x, a, text) ==
  CASE m \in {"implicit", "String", "json", "toString"} -> NumTextOK(x, text)
    [] m = "toFixed" -> FixedTextOK(x, WTruncClamp(a[1].w), text)
    [] m = "toPrecision" -> PrecTextOK(x, WTruncClamp(a[1].w), text)
    [] m = "toExponential" -> ExpTextOK(x, WTruncClamp(a[1].w), text)

\* ---------------- Laws ------------------------------------------------------------------------------------
FmtLaws(d) ==
  LET txt == NumToText(d)
      calls == FmtCalls(d)
  IN /\ DCanon(d)
     /\ StrToD(txt) = (IF d.c = "zero" THEN DZero(0) ELSE d)                                  \* FromDecimal(Shortest(d)) = d
     /\ NumTextOK(d, txt)
     /\ \A c \in calls :
          LET e == Expected("fmt", c.m, d, c.a) IN
          /\ e.o \in {"value", "throw", "prefix"}
          /\ (e.o = "value" => e.v.k = "str")
          /\ (e.o = "value" /\ RelApplies(c.m, d, c.a) => RelText(c.m, d, c.a, e.v.u))            \* functional satisfies relational
          \* 17 significant digits always read back as the same double; so does the shortest exponential form
          /\ (e.o = "value" /\ d.c = "fin" /\ c.m = "toPrecision" /\ SmallArg(c.a) /\ WTruncClamp(c.a[1].w) >= 17 => StrToD(e.v.u) = d)
          /\ (e.o = "value" /\ d.c = "fin" /\ c.m = "toExponential" /\ c.a = <<>> => StrToD(e.v.u) = d)
          \* an integer below 2^53 printed in any radix reads back with parseInt
          /\ (e.o = "value" /\ c.m = "toString" /\ SmallArg(c.a) /\ DIsInteger(d) /\ d.c = "fin" /\ d.e + BnBitLen(d.m) <= 53
                => ParseInt(<<e.v, c.a[1]>>) = FVal(NumV(d)))
ParseLaws(u) ==
  LET v == VStr(u)
      n == ToNumberD(v)
      pf == ParseFloat(<<v>>)
  IN /\ DCanon(n) /\ StrDenotes(u, n)
     /\ NumberFn(<<v>>) = FVal(NumV(n))
     /\ BinOp("-", v, VInt(0)) = NumV(n) /\ BinOp("*", v, VInt(1)) = NumV(n)
     \* where Number() accepts a decimal literal, parseFloat agrees (it reads a prefix of what Number reads whole)
     /\ (n.c # "nan" /\ StrNumParse(u).t \in {"dec", "inf"} /\ Trim(u) # <<>> => pf = FVal(NumV(n)))
     \* parseInt of an accepted text with radix 10 is the truncation when the text has no fraction or exponent
     /\ ParseInt(<<v>>) = ParseInt(<<v, VInt(0)>>) /\ ParseInt(<<v>>) = ParseInt(<<v, Undef>>)
MathLaws(fn, a) ==
  LET e == MathFn(fn, a)
      x == IF Len(a) >= 1 THEN ToNumberD(a[1]) ELSE DNaN
  IN /\ e.o \in {"value", "approx"}
     /\ (e.o = "value" => e.v.k = "num" /\ DCanon(DFromW(e.v.w)))
     /\ (fn = "floor" /\ x.c = "fin" => LET f == DFromW(e.v.w) IN DIsInteger(f) /\ DCmp(f, x) <= 0 /\ DCmp(DAdd(f, DOne), x) >= 0)
     /\ (fn = "ceil" => e = MNum(DNeg(DFloor(DNeg(x)))))
     /\ (fn = "trunc" /\ x.c = "fin" => e = MNum(IF x.s = 1 THEN DCeil(x) ELSE DFloor(x)))
     /\ (fn = "round" /\ x.c = "fin" /\ x.e + BnBitLen(x.m) <= 52 => LET r == DFromW(e.v.w) IN DNumEq(r, DFloor(DAdd(x, ND("0.5")))) \/ x = ND("0.49999999999999994"))
     /\ (fn = "abs" => e = MNum(DAbs(x)))
     /\ (fn = "fround" => Math1("fround", DFromW(e.v.w)) = e)
     /\ (fn \in {"min", "max"} /\ Len(a) = 2 => MathFn(fn, <<a[2], a[1]>>) = e)
     /\ (fn = "imul" /\ Len(a) = 2 => MathFn(fn, <<a[2], a[1]>>) = e)
\* every spelling denotes the double it was made from, and the spellings of one double are distinct texts
LitLaws(d) == \A sp \in LitsOf(d) : StrToD(sp) = d
\* leading zeros do not change what parseInt reads; a long text is read like its short body
LongLaws(sp) == \A sh \in {x \in LongShapes(sp) : IsLong(x) /\ x.z > 0} :
                  ParseInt(<<VStr(LongText(<<>>, sh)), Nm(sp.r)>>) = ParseInt(<<VStr(LongBody(sp, sh.sig, sh.t)), Nm(sp.r)>>)
\* the grid of either tier contains every length class (a class dropped from a tier fails the specification run)
LongGridLaw ==
  LET all == UNION {{x \in LongShapes(LongSpecs[lg_j]) : IsLong(x)} : lg_j \in 1..Len(LongSpecs)}
      len(x) == x.z + Len(x.sig) + x.t
  IN /\ \E x \in all : x.z = 0 /\ len(x) > 1000                                       \* more than 1000 significant digits
     /\ \E x \in all : x.z > 0 /\ x.z < 1000 /\ x.z + Len(x.sig) > 1000 /\ x.t = 0     \* the significant digits straddle position 1000
     /\ \E x \in all : x.z > 0 /\ x.z < 1000 /\ len(x) > 1000 /\ x.t > 0
     /\ \E x \in all : len(x) > 2000 /\ len(x) < 4300
     /\ \E x \in all : len(x) > 4300
     /\ \E x \in all : len(x) <= 1000                                                  \* control below the mark
     /\ \A lg_j \in 1..Len(LongSpecs) : LongSpecs[lg_j].zs = {} \/ \E x \in LongShapes(LongSpecs[lg_j]) : IsLong(x) /\ len(x) > 1000
\* the threshold grid of either tier contains every class of rounding situation (a class dropped from a tier fails
\* the specification run): classes are stated through the reference rounding, not through particular values
RndGridLaw ==
  LET r(x) == DRoundF32(x)
      fin == {x \in RndF32Vals : x.c = "fin"}
      fmax == RndF32Member(16777215, 104)
      inexact(x) == r(x) # x
      sub32(y) == y.c = "fin" /\ y.e + BnBitLen(y.m) <= -126                                 \* a subnormal binary32 value
  IN /\ \A sg \in {0, 1} :
          /\ \E x \in fin : x.s = sg /\ DMagCmp(x, fmax) > 0 /\ r(x).c = "fin"              \* beyond FLT_MAX, below the tie: FLT_MAX
          /\ \E x \in fin : x.s = sg /\ r(x).c = "inf" /\ r(DPrevMag(x)).c = "fin"           \* the overflow tie itself
          /\ \E x \in fin : x.s = sg /\ r(x).c = "inf" /\ r(DPrevMag(x)).c = "inf"           \* beyond the tie
          /\ \E x \in fin : x.s = sg /\ r(x).c = "zero" /\ r(DNextMag(x)).c = "fin"          \* the underflow tie 2^-150: zero
          /\ \E x \in fin : x.s = sg /\ r(x).c = "fin" /\ r(DPrevMag(x)).c = "zero"          \* just above it: the least subnormal
          /\ \E x \in fin : x.s = sg /\ inexact(x) /\ sub32(r(x))                            \* inexact, subnormal result
          \* a tie resolved towards zero and one resolved away from it (even significand), normal range
          /\ \E x \in fin : x.s = sg /\ r(x).c = "fin" /\ ~sub32(r(x)) /\ DMagCmp(r(x), x) < 0 /\ r(DNextMag(x)) # r(x) /\ r(DPrevMag(x)) = r(x)
          /\ \E x \in fin : x.s = sg /\ r(x).c = "fin" /\ ~sub32(r(x)) /\ DMagCmp(r(x), x) > 0 /\ r(DPrevMag(x)) # r(x) /\ r(DNextMag(x)) = r(x)
          /\ \E x \in fin : x.s = sg /\ ~inexact(x) /\ inexact(DNextMag(x)) /\ r(DNextMag(x)) = x  \* a member and its neighbour
          \* integers: the exact half (round changes there, not before), a non-integer beyond 2^51, ToUint32 wrap
          /\ \E x \in RndIntVals : x.c = "fin" /\ x.s = sg /\ ~DIsInteger(x) /\ DRoundHalfUp(DPrevMag(x)) # DRoundHalfUp(DNextMag(x))
                                     /\ DFloor(DPrevMag(x)) = DFloor(DNextMag(x))
          /\ \E x \in RndIntVals : x.c = "fin" /\ x.s = sg /\ DIsInteger(x) /\ DFloor(DPrevMag(x)) # DFloor(x) /\ DCeil(DNextMag(x)) # DCeil(x)
          /\ \E x \in RndIntVals : x.c = "fin" /\ x.s = sg /\ ~DIsInteger(x) /\ DMagCmp(x, DPow2(51)) > 0
          /\ \E x \in RndIntVals : x.c = "fin" /\ x.s = sg /\ DMagCmp(x, DPow2(32)) >= 0 /\ DClz32(x) < 32
          /\ \E x \in RndIntVals : x.c = "fin" /\ x.s = sg /\ ~DIsInteger(x) /\ DMagCmp(x, DPow2(32)) > 0 /\ DMagCmp(x, DPow2(33)) < 0
     /\ \A x \in RndF32Vals \cup RndIntVals : DCanon(x)
LawsHold ==
  IF ph # "case" THEN TRUE
  ELSE CASE cur.g = "fmt" -> FmtLaws(cur.v) /\ LitLaws(cur.v)
         [] cur.g = "long" -> LongLaws(LongSpecs[cur.v]) /\ LongGridLaw
         [] cur.g = "parse" -> \A w \in WsPre, sg \in Signs, sf \in Suffixes : ParseLaws(w \o sg \o U(BodyTexts[cur.v]) \o sf)
         [] cur.g = "radix" -> \A rv \in RadixVals : ParseInt(<<VStr(U(RadixTexts[cur.v])), rv>>).o = "value"
         [] cur.g = "math" -> /\ \A a \in MathArgs(cur.v) \cup RndArgs(cur.v) : MathLaws(cur.v, a)
                              /\ (cur.v = "fround" => RndGridLaw)

\* ---------------- Judge ------------------------------------------------------------------------------------
Recs == ndJsonDeserialize(IOEnv.OBS_FILE)          \* [id, g, m, x, a, intrep, out]
ActMatches(act, e) ==
  CASE e.o = "value" -> act.o = "value" /\ SameVal(act.v, e.v)
    [] e.o = "throw" -> act.o = "throw" /\ act.cls = e.cls
    [] e.o = "approx" -> act.o = "value" /\ act.v.k = "num" /\ ~WIsNaN(act.v.w) /\ (e.s = 2 \/ WSign(act.v.w) = e.s)
    [] e.o = "prefix" -> act.o = "value" /\ act.v.k = "str" /\ RadixPrefixOK(act.v.u, e.u, e.radix)
Verdict(r) ==
  LET x == DFromW(r.x.w)
      e == Expected(r.g, r.m, x, r.a)
      fun == ActMatches(r.out, e)
      relapp == r.g = "fmt" /\ e.o = "value" /\ r.out.o = "value" /\ r.out.v.k = "str" /\ RelApplies(r.m, x, r.a)
      rel == RelText(r.m, x, r.a, r.out.v.u)
  IN IF relapp /\ fun # rel THEN [v |-> "spec-inconsistent", dev |-> "", exp |-> e]      \* the two formulations disagree: machinery
     ELSE IF fun THEN [v |-> "pass", dev |-> "", exp |-> e]
     ELSE [v |-> "mismatch", dev |-> IF r.g \in {"fmt", "parse", "math"} THEN ExplainFmt(r, x, e) ELSE "", exp |-> e]
JudgeInit == /\ rec_i \in 1..Len(Recs) /\ ph = "judge" /\ cur = NoCur
             /\ LET r == Recs[rec_i]  v == Verdict(r)
                IN PrintT(ToJson([id |-> r.id, v |-> v.v, dev |-> v.dev, exp |-> v.exp]))
JudgeNext == UNCHANGED vars
=============================================================================
