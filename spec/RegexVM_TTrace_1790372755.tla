---- MODULE RegexVM_TTrace_1790372755 ----
EXTENDS Sequences, TLCExt, Toolbox, Naturals, TLC, RegexVM

_expression ==
    LET RegexVM_TEExpression == INSTANCE RegexVM_TEExpression
    IN RegexVM_TEExpression!expression
----

_trace ==
    LET RegexVM_TETrace == INSTANCE RegexVM_TETrace
    IN RegexVM_TETrace!trace
----

_inv ==
    ~(
        TLCGet("level") = Len(_TETrace)
        /\
        att = (0)
        /\
        subruns = (1)
        /\
        work = ([re |-> 2, la |-> 6, lb |-> 0])
        /\
        pollc = (8)
        /\
        acts = (<<[kind |-> "re", steps |-> 2, stack |-> 0], [kind |-> "la", steps |-> 6, stack |-> 0]>>)
        /\
        status = ("run")
        /\
        since = (0)
    )
----

_init ==
    /\ acts = _TETrace[1].acts
    /\ att = _TETrace[1].att
    /\ subruns = _TETrace[1].subruns
    /\ work = _TETrace[1].work
    /\ pollc = _TETrace[1].pollc
    /\ status = _TETrace[1].status
    /\ since = _TETrace[1].since
----

_next ==
    /\ \E i,j \in DOMAIN _TETrace:
        /\ \/ /\ j = i + 1
              /\ i = TLCGet("level")
        /\ acts  = _TETrace[i].acts
        /\ acts' = _TETrace[j].acts
        /\ att  = _TETrace[i].att
        /\ att' = _TETrace[j].att
        /\ subruns  = _TETrace[i].subruns
        /\ subruns' = _TETrace[j].subruns
        /\ work  = _TETrace[i].work
        /\ work' = _TETrace[j].work
        /\ pollc  = _TETrace[i].pollc
        /\ pollc' = _TETrace[j].pollc
        /\ status  = _TETrace[i].status
        /\ status' = _TETrace[j].status
        /\ since  = _TETrace[i].since
        /\ since' = _TETrace[j].since

\* Uncomment the ASSUME below to write the states of the error trace
\* to the given file in Json format. Note that you can pass any tuple
\* to `JsonSerialize`. For example, a sub-sequence of _TETrace.
    \* ASSUME
    \*     LET J == INSTANCE Json
    \*         IN J!JsonSerialize("RegexVM_TTrace_1790372755.json", _TETrace)

=============================================================================

 Note that you can extract this module `RegexVM_TEExpression`
  to a dedicated file to reuse `expression` (the module in the 
  dedicated `RegexVM_TEExpression.tla` file takes precedence 
  over the module `RegexVM_TEExpression` below).

---- MODULE RegexVM_TEExpression ----
EXTENDS Sequences, TLCExt, Toolbox, Naturals, TLC, RegexVM

expression == 
    [
        \* To hide variables of the `RegexVM` spec from the error trace,
        \* remove the variables below.  The trace will be written in the order
        \* of the fields of this record.
        acts |-> acts
        ,att |-> att
        ,subruns |-> subruns
        ,work |-> work
        ,pollc |-> pollc
        ,status |-> status
        ,since |-> since
        
        \* Put additional constant-, state-, and action-level expressions here:
        \* ,_stateNumber |-> _TEPosition
        \* ,_actsUnchanged |-> acts = acts'
        
        \* Format the `acts` variable as Json value.
        \* ,_actsJson |->
        \*     LET J == INSTANCE Json
        \*     IN J!ToJson(acts)
        
        \* Lastly, you may build expressions over arbitrary sets of states by
        \* leveraging the _TETrace operator.  For example, this is how to
        \* count the number of times a spec variable changed up to the current
        \* state in the trace.
        \* ,_actsModCount |->
        \*     LET F[s \in DOMAIN _TETrace] ==
        \*         IF s = 1 THEN 0
        \*         ELSE IF _TETrace[s].acts # _TETrace[s-1].acts
        \*             THEN 1 + F[s-1] ELSE F[s-1]
        \*     IN F[_TEPosition - 1]
    ]

=============================================================================



Parsing and semantic processing can take forever if the trace below is long.
 In this case, it is advised to uncomment the module below to deserialize the
 trace from a generated binary file.

\*
\*---- MODULE RegexVM_TETrace ----
\*EXTENDS IOUtils, TLC, RegexVM
\*
\*trace == IODeserialize("RegexVM_TTrace_1790372755.bin", TRUE)
\*
\*=============================================================================
\*

---- MODULE RegexVM_TETrace ----
EXTENDS TLC, RegexVM

trace == 
    <<
    ([att |-> 0,subruns |-> 0,work |-> [re |-> 0, la |-> 0, lb |-> 0],pollc |-> 0,acts |-> <<[kind |-> "re", steps |-> 0, stack |-> 0]>>,status |-> "run",since |-> 0]),
    ([att |-> 0,subruns |-> 0,work |-> [re |-> 1, la |-> 0, lb |-> 0],pollc |-> 1,acts |-> <<[kind |-> "re", steps |-> 1, stack |-> 0]>>,status |-> "run",since |-> 1]),
    ([att |-> 0,subruns |-> 1,work |-> [re |-> 2, la |-> 0, lb |-> 0],pollc |-> 2,acts |-> <<[kind |-> "re", steps |-> 2, stack |-> 0], [kind |-> "la", steps |-> 0, stack |-> 0]>>,status |-> "run",since |-> 0]),
    ([att |-> 0,subruns |-> 1,work |-> [re |-> 2, la |-> 1, lb |-> 0],pollc |-> 3,acts |-> <<[kind |-> "re", steps |-> 2, stack |-> 0], [kind |-> "la", steps |-> 1, stack |-> 0]>>,status |-> "run",since |-> 1]),
    ([att |-> 0,subruns |-> 1,work |-> [re |-> 2, la |-> 2, lb |-> 0],pollc |-> 4,acts |-> <<[kind |-> "re", steps |-> 2, stack |-> 0], [kind |-> "la", steps |-> 2, stack |-> 0]>>,status |-> "run",since |-> 0]),
    ([att |-> 0,subruns |-> 1,work |-> [re |-> 2, la |-> 3, lb |-> 0],pollc |-> 5,acts |-> <<[kind |-> "re", steps |-> 2, stack |-> 0], [kind |-> "la", steps |-> 3, stack |-> 0]>>,status |-> "run",since |-> 1]),
    ([att |-> 0,subruns |-> 1,work |-> [re |-> 2, la |-> 4, lb |-> 0],pollc |-> 6,acts |-> <<[kind |-> "re", steps |-> 2, stack |-> 0], [kind |-> "la", steps |-> 4, stack |-> 0]>>,status |-> "run",since |-> 0]),
    ([att |-> 0,subruns |-> 1,work |-> [re |-> 2, la |-> 5, lb |-> 0],pollc |-> 7,acts |-> <<[kind |-> "re", steps |-> 2, stack |-> 0], [kind |-> "la", steps |-> 5, stack |-> 0]>>,status |-> "run",since |-> 1]),
    ([att |-> 0,subruns |-> 1,work |-> [re |-> 2, la |-> 6, lb |-> 0],pollc |-> 8,acts |-> <<[kind |-> "re", steps |-> 2, stack |-> 0], [kind |-> "la", steps |-> 6, stack |-> 0]>>,status |-> "run",since |-> 0])
    >>
----


=============================================================================

---- CONFIG RegexVM_TTrace_1790372755 ----
CONSTANTS
    StepLimit = 4
    StackLimit = 2
    PollInterval = 2
    N = 1
    MaxSub = 1
    MaxSubRuns = 2
    Devs = { "Dev_SubNoStepLimit" }

INVARIANT
    _inv

CHECK_DEADLOCK
    \* CHECK_DEADLOCK off because of PROPERTY or INVARIANT above.
    FALSE

INIT
    _init

NEXT
    _next

CONSTANT
    _TETrace <- _trace

ALIAS
    _expression
=============================================================================
\* Generated on Fri Sep 25 21:45:58 UTC 2026