------------------------------ MODULE Encoding ------------------------------
(* Layer I: the instruction format of the bytecode compiler/VM pair.                 *)
(*   one opcode byte; "w8" opcodes carry one operand byte; "w16" opcodes (jumps,      *)
(*   TRY_START) carry a little-endian two-byte absolute target.                       *)
(* The emitter is modelled as the code does it (compiler.py _emit/_emit_jump/         *)
(* _patch_jump): append bytes, patch forward jumps later; an operand that does not     *)
(* fit is REFUSED.  The byte base is a constant so TLC can explore every overflow      *)
(* boundary exhaustively with a small base (B = 4: operands 0..3, targets 0..15).      *)
(* Invariant: decoding the emitted bytes gives back exactly the intended instructions  *)
(* (Decode o Encode = id) or the program was refused - never a wrapped operand.        *)
EXTENDS Naturals, Integers, Sequences, FiniteSets, TLC

CONSTANTS B,            \* byte base (256 in the real thing)
          MaxLen,       \* bound on emitted instructions
          Masking       \* TRUE = the pre-fix emitter (operand & (B-1), target mod B^2): must violate RoundTrip

Kinds == {"none", "w8", "w16"}
VARIABLES code,         \* emitted bytes: sequence over 0..B-1 (opcode bytes are abstracted to their kind tag)
          intended,     \* history: sequence of [k, arg] the compiler meant to emit
          pending,      \* positions (1-based byte index of opcode) of unpatched forward jumps
          status        \* "open" | "done" | "refused"
vars == <<code, intended, pending, status>>

Lo(x) == x % B
Hi(x) == (x \div B) % B
Fits8(x) == x >= 0 /\ x < B
Fits16(x) == x >= 0 /\ x < B * B

Init == code = <<>> /\ intended = <<>> /\ pending = {} /\ status = "open"

\* opcode bytes are written as negative tags so they can never be confused with operand bytes in the model
OpByte(k) == CASE k = "none" -> -1 [] k = "w8" -> -2 [] k = "w16" -> -3

EmitNone == /\ status = "open" /\ Len(intended) < MaxLen
            /\ code' = Append(code, OpByte("none"))
            /\ intended' = Append(intended, [k |-> "none", arg |-> 0, at |-> Len(code)])
            /\ UNCHANGED <<pending, status>>
\* operand values around every boundary: 0, B-1, B, B+1
EmitW8(x) == /\ status = "open" /\ Len(intended) < MaxLen
             /\ IF Fits8(x) \/ Masking
                THEN /\ code' = code \o <<OpByte("w8"), (IF Masking THEN Lo(x) ELSE x)>>
                     /\ intended' = Append(intended, [k |-> "w8", arg |-> x, at |-> Len(code)])
                     /\ UNCHANGED <<pending, status>>
                ELSE status' = "refused" /\ UNCHANGED <<code, intended, pending>>
\* backward jump: target known now (any earlier instruction start)
EmitBack(t) == /\ status = "open" /\ Len(intended) < MaxLen /\ t \in {i.at : i \in {intended[j] : j \in 1..Len(intended)}}
               /\ IF Fits16(t) \/ Masking
                  THEN /\ code' = code \o <<OpByte("w16"), Lo(t), Hi(t)>>
                       /\ intended' = Append(intended, [k |-> "w16", arg |-> t, at |-> Len(code)])
                       /\ UNCHANGED <<pending, status>>
                  ELSE status' = "refused" /\ UNCHANGED <<code, intended, pending>>
\* forward jump: placeholder now, patched later
EmitFwd == /\ status = "open" /\ Len(intended) < MaxLen
           /\ code' = code \o <<OpByte("w16"), 0, 0>>
           /\ intended' = Append(intended, [k |-> "w16", arg |-> -1, at |-> Len(code)])
           /\ pending' = pending \cup {Len(intended) + 1}
           /\ UNCHANGED status
Patch(j) == /\ status = "open" /\ j \in pending
            /\ LET t == Len(code)  pos == intended[j].at + 1 IN
               IF Fits16(t) \/ Masking
               THEN /\ code' = [code EXCEPT ![pos + 1] = Lo(t), ![pos + 2] = Hi(t)]
                    /\ intended' = [intended EXCEPT ![j].arg = t]
                    /\ pending' = pending \ {j}
                    /\ UNCHANGED status
               ELSE status' = "refused" /\ UNCHANGED <<code, intended, pending>>
Finish == /\ status = "open" /\ pending = {} /\ status' = "done" /\ UNCHANGED <<code, intended, pending>>

Next == \/ EmitNone \/ (\E x \in {0, B - 1, B, B + 1} : EmitW8(x))
        \/ (\E t \in 0..(3 * MaxLen) : EmitBack(t)) \/ EmitFwd \/ (\E j \in pending : Patch(j)) \/ Finish
Spec == Init /\ [][Next]_vars

\* ---- the decoder, as vm.py does it -------------------------------------------------------------
RECURSIVE DecodeFrom(_, _)
DecodeFrom(c, pos) ==            \* pos: 1-based index
  IF pos > Len(c) THEN <<>>
  ELSE CASE c[pos] = -1 -> <<[k |-> "none", arg |-> 0, at |-> pos - 1]>> \o DecodeFrom(c, pos + 1)
         [] c[pos] = -2 -> <<[k |-> "w8", arg |-> c[pos + 1], at |-> pos - 1]>> \o DecodeFrom(c, pos + 2)
         [] c[pos] = -3 -> <<[k |-> "w16", arg |-> c[pos + 1] + B * c[pos + 2], at |-> pos - 1]>> \o DecodeFrom(c, pos + 3)
         [] OTHER -> <<[k |-> "garbage", arg |-> c[pos], at |-> pos - 1]>>
Decode(c) == DecodeFrom(c, 1)

RoundTrip == status = "done" => Decode(code) = intended
\* every decoded jump target is an instruction start or the end of the code
TargetsValid == status = "done" =>
   LET starts == {intended[j].at : j \in 1..Len(intended)} \cup {Len(code)}
   IN \A j \in 1..Len(intended) : intended[j].k = "w16" => Decode(code)[j].arg \in starts
TypeOK == status \in {"open", "done", "refused"} /\ pending \subseteq 1..Len(intended)
=============================================================================
