#!/usr/bin/env python3
"""Regenerate the generated tables of DESIGN.md section 10 (10.3 builders table, 10.5 seeded-change table) in place."""
import json, glob, os, subprocess, re
D = "/verif/DESIGN.md"
s = open(D).read()
rows = []
for d in sorted(glob.glob("/verif/seeded/*/meta.json")):
    m = json.load(open(d)); sid = os.path.basename(os.path.dirname(d))
    rows.append("| %s | %s | %s | %s |" % (sid, m["needs_to_manifest"].replace("|", "/"), m["detected_by"], m["ran"].replace("|", "/")))
table = "| seed | what it needs to manifest | caught by | what was run / what had to be strengthened |\n|---|---|---|---|\n" + "\n".join(rows)
a = s.index("| seed | what it needs to manifest |")
b = s.index("\n\n", a)
s = s[:a] + table + s[b:]
mods = {'C04': 'LexerFSM, JsGrammar (acceptor), C04', 'C05': 'MiniAst, MiniJS, C05 (+JsVM_Trace)', 'C06': 'BigNat, Dbl, JsConv, JsOps, JsOpsAsIs, C06',
        'C07': 'MiniJS, C07 (extends C05)', 'C08': 'ObjModel, C08, C08_Trace', 'C09': 'RegexSem, C09', 'C10': 'RegexVM, RegexSem (acceptor), C10',
        'C11': 'Boundary, C11', 'C12': 'ContextModel, C12', 'C13': 'JsGrammar, LexerFSM, C13', 'C15': 'Slots, C15 (extends C05)',
        'C17': 'JsArray, TypedArr, C17', 'C18': 'Dbl, JsConv, JsNumFmt, JsNumFmtAsIs, C18', 'C19': 'JsJSON, JsConv, C19',
        'C20': 'LastIndex, RegexApi, RegexSem, C20'}
rows = []
for pid in sorted(mods):
    p = "/verif/known_findings/%s.json" % pid
    d = json.load(open(p)) if os.path.exists(p) else {"findings": [], "fixed": []}
    op = ", ".join(f["id"] for f in d["findings"]) or "—"
    rows.append("| %s | %s | %d | %s | notes/%s.md |" % (pid, mods[pid], len(d.get("fixed", [])), op, pid))
table = "| id | specification modules | defects repaired (fix: commits recorded) | findings still recorded (named deviations) | write-up |\n|---|---|---|---|---|\n" + "\n".join(rows)
a = s.index("| id | specification modules |")
b = s.index("\n\n", a)
s = s[:a] + table + s[b:]
n = subprocess.run(["git", "-C", "/repo", "log", "--oneline", "e80332d..main"], capture_output=True, text=True).stdout.count("\n")
s = re.sub(r"/repo now carries \d+ commits", "/repo now carries %d commits" % n, s)
open(D, "w").write(s)
print("seeds:", len(glob.glob("/verif/seeded/*/meta.json")), "repo commits:", n)
