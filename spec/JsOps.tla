--------------------------------- MODULE JsOps ---------------------------------
(* ECMAScript operators and conversions on primitive values (ECMA-262 7.1, 7.2,  *)
(* 6.1.6.1, 13.4 - 13.15), reference semantics.  Values are JsVal records         *)
(* (undef, null, bool, num as four words, str as code units); primitives only,    *)
(* so ToPrimitive is the identity and no operator throws.  Variable-free.         *)
(*                                                                                *)
(* `Approx(sg)` stands for a result ECMA-262 calls "implementation-approximated"  *)
(* (Number::exponentiate away from the special points and from exactly            *)
(* representable powers): a non-NaN number with sign sg; it propagates.           *)
EXTENDS JsConv

NumV(d) == VNumW(DToW(d))
Approx(sg) == [k |-> "approx", s |-> sg]
IsApprox(v) == v.k = "approx"

\* ---- 7.1 type conversion -----------------------------------------------------------------------
ToNumberD(v) ==
  CASE v.k = "undef" -> DNaN
    [] v.k = "null" -> DZero(0)
    [] v.k = "bool" -> IF v.b THEN DOne ELSE DZero(0)
    [] v.k = "num" -> DFromW(v.w)
    [] v.k = "str" -> StrToD(v.u)
ToNumberV(v) == NumV(ToNumberD(v))
TxtUndefined == <<117, 110, 100, 101, 102, 105, 110, 101, 100>>
TxtNull == <<110, 117, 108, 108>>
TxtTrue == <<116, 114, 117, 101>>
TxtFalse == <<102, 97, 108, 115, 101>>
ToStringU(v) ==
  CASE v.k = "undef" -> TxtUndefined
    [] v.k = "null" -> TxtNull
    [] v.k = "bool" -> IF v.b THEN TxtTrue ELSE TxtFalse
    [] v.k = "num" -> NumToText(DFromW(v.w))
    [] v.k = "str" -> v.u
ToBool(v) ==
  CASE v.k \in {"undef", "null"} -> FALSE
    [] v.k = "bool" -> v.b
    [] v.k = "num" -> ~(WIsNaN(v.w) \/ WIsZero(v.w))
    [] v.k = "str" -> v.u # <<>>
TypeOfU(v) ==
  CASE v.k = "undef" -> TxtUndefined
    [] v.k = "null" -> <<111, 98, 106, 101, 99, 116>>                 \* "object"
    [] v.k = "bool" -> <<98, 111, 111, 108, 101, 97, 110>>            \* "boolean"
    [] v.k = "num" -> <<110, 117, 109, 98, 101, 114>>                 \* "number"
    [] v.k = "str" -> <<115, 116, 114, 105, 110, 103>>                \* "string"

\* ---- 6.1.6.1.3 Number::exponentiate -------------------------------------------------------------
DIsOddInt(y) == y.c = "fin" /\ DIsInteger(y) /\ (IF y.e > 0 THEN FALSE ELSE BnBit(y.m, 0 - y.e) = 1)
DMagCmpOne(x) == DMagCmp(x, DOne)                                     \* |x| ? 1 (x finite)
\* m^n by repeated multiplication (n <= 64)
BnPowS(mm, n) == BnFold(LAMBDA acc, it : BnMul(acc, mm), BnOne, BnIdx(n))
\* finite nonzero base, finite nonzero integer exponent: the exact power if it is a double
PowFinite(x, y) ==
  LET sg == IF x.s = 1 /\ DIsOddInt(y) THEN 1 ELSE 0
      tz == BnTrailingZeros(x.m)
      mo == BnShr(x.m, tz)                                              \* odd part: |x| = mo * 2^eo
      eo == x.e + tz
      nbig == y.e + BnBitLen(y.m) > 12                                  \* |n| >= 2^12
      n == IF nbig THEN 4096 ELSE BnToInt(DTruncMag(y))
  IN IF ~DIsInteger(y) THEN (IF x.s = 1 THEN NumV(DNaN) ELSE Approx(0))
     ELSE IF mo = BnOne
          THEN \* a power of two: exact, or beyond the range (then +-Infinity / +-0 is the only rounding)
               LET ee == IF y.s = 1 THEN 0 - eo * n ELSE eo * n
               IN IF eo = 0 THEN NumV(DFin(sg, DP52, -52))
                  ELSE IF ee > 1023 THEN NumV(DInf(sg)) ELSE IF ee < -1075 THEN NumV(DZero(sg))
                  ELSE IF ee < -1074 THEN Approx(sg) ELSE NumV(DRoundDy(sg, BnOne, ee, FALSE))
     ELSE IF y.s = 0 /\ ~nbig /\ n <= 64 /\ BnBitLen(mo) * n <= 60
          THEN LET pw == BnPowS(mo, n)
                   ee == eo * n
               IN IF BnBitLen(pw) <= 53 /\ ee + BnBitLen(pw) <= 1024 /\ ee >= -1074
                  THEN NumV(DRoundDy(sg, pw, ee, FALSE)) ELSE Approx(sg)
     ELSE Approx(sg)
DPow(x, y) ==
  CASE y.c = "nan" -> NumV(DNaN)
    [] y.c = "zero" -> NumV(DOne)
    [] x.c = "nan" -> NumV(DNaN)
    [] x.c = "inf" /\ x.s = 0 -> NumV(IF y.s = 0 THEN DInf(0) ELSE DZero(0))
    [] x.c = "inf" /\ x.s = 1 -> NumV(IF y.s = 0 THEN DInf(IF DIsOddInt(y) THEN 1 ELSE 0) ELSE DZero(IF DIsOddInt(y) THEN 1 ELSE 0))
    [] x.c = "zero" /\ x.s = 0 -> NumV(IF y.s = 0 THEN DZero(0) ELSE DInf(0))
    [] x.c = "zero" /\ x.s = 1 -> NumV(IF y.s = 0 THEN DZero(IF DIsOddInt(y) THEN 1 ELSE 0) ELSE DInf(IF DIsOddInt(y) THEN 1 ELSE 0))
    [] y.c = "inf" -> LET c1 == DMagCmpOne(x)
                      IN NumV(IF c1 = 0 THEN DNaN
                              ELSE IF (c1 > 0) = (y.s = 0) THEN DInf(0) ELSE DZero(0))
    [] OTHER -> PowFinite(x, y)

\* ---- bitwise ------------------------------------------------------------------------------------
BitsAnd(p, q) == [jo_k \in 1..32 |-> p[jo_k] * q[jo_k]]
BitsOr(p, q)  == [jo_k \in 1..32 |-> IF p[jo_k] + q[jo_k] > 0 THEN 1 ELSE 0]
BitsXor(p, q) == [jo_k \in 1..32 |-> (p[jo_k] + q[jo_k]) % 2]
BitsNot(p)    == [jo_k \in 1..32 |-> 1 - p[jo_k]]
ShiftCount(d) == LET bb == DToBits32(d) IN bb[1] + 2 * bb[2] + 4 * bb[3] + 8 * bb[4] + 16 * bb[5]
BitsShl(p, n) == [jo_k \in 1..32 |-> IF jo_k - n >= 1 THEN p[jo_k - n] ELSE 0]
BitsSar(p, n) == [jo_k \in 1..32 |-> IF jo_k + n <= 32 THEN p[jo_k + n] ELSE p[32]]
BitsShr(p, n) == [jo_k \in 1..32 |-> IF jo_k + n <= 32 THEN p[jo_k + n] ELSE 0]

\* ---- 7.2.13 IsLessThan, 7.2.14 IsLooselyEqual, 7.2.15 IsStrictlyEqual ---------------------------
UnitsLess(p, q) ==
  LET n == BnMin(Len(p), Len(q))
      df == {jo_k \in 1..n : p[jo_k] # q[jo_k]}
  IN IF df = {} THEN Len(p) < Len(q)
     ELSE LET first == CHOOSE jo_k \in df : \A jo_j \in df : jo_k <= jo_j IN p[first] < q[first]
\* "t", "f" or "u" (undefined: an operand is NaN)
IsLessThan(a, b) ==
  IF a.k = "str" /\ b.k = "str" THEN (IF UnitsLess(a.u, b.u) THEN "t" ELSE "f")
  ELSE LET x == ToNumberD(a)  y == ToNumberD(b)
       IN IF x.c = "nan" \/ y.c = "nan" THEN "u" ELSE IF DCmp(x, y) < 0 THEN "t" ELSE "f"
StrictEq(a, b) ==
  /\ a.k = b.k
  /\ CASE a.k = "num" -> DNumEq(DFromW(a.w), DFromW(b.w))
       [] a.k = "str" -> a.u = b.u
       [] a.k = "bool" -> a.b = b.b
       [] OTHER -> TRUE
RECURSIVE LooseEq(_, _)
LooseEq(a, b) ==
  IF a.k = b.k THEN StrictEq(a, b)
  ELSE IF a.k \in {"undef", "null"} /\ b.k \in {"undef", "null"} THEN TRUE
  ELSE IF a.k = "num" /\ b.k = "str" THEN LooseEq(a, ToNumberV(b))
  ELSE IF a.k = "str" /\ b.k = "num" THEN LooseEq(ToNumberV(a), b)
  ELSE IF a.k = "bool" THEN LooseEq(ToNumberV(a), b)
  ELSE IF b.k = "bool" THEN LooseEq(a, ToNumberV(b))
  ELSE FALSE

\* ---- operators -----------------------------------------------------------------------------------
ArithOps == {"-", "*", "/", "%", "**"}
BitOps == {"&", "|", "^", "<<", ">>", ">>>"}
RelOps == {"<", "<=", ">", ">="}
EqOps == {"==", "!=", "===", "!=="}
LogicOps == {"&&", "||"}
BinaryOps == {"+", ","} \cup ArithOps \cup BitOps \cup RelOps \cup EqOps \cup LogicOps
UnaryOps == {"neg", "pos", "!", "~", "typeof", "void"}
CompoundOps == {"+"} \cup ArithOps \cup BitOps                     \* op= for each
UpdateOps == {"++", "--"}

NumBin(op, x, y) ==
  CASE op = "+" -> NumV(DAdd(x, y))
    [] op = "-" -> NumV(DSub(x, y))
    [] op = "*" -> NumV(DMul(x, y))
    [] op = "/" -> NumV(DDiv(x, y))
    [] op = "%" -> NumV(DFmod(x, y))
    [] op = "**" -> DPow(x, y)
BitBin(op, x, y) ==
  LET p == DToBits32(x)  q == DToBits32(y)  n == ShiftCount(y) IN
  CASE op = "&" -> NumV(DOfBitsS(BitsAnd(p, q)))
    [] op = "|" -> NumV(DOfBitsS(BitsOr(p, q)))
    [] op = "^" -> NumV(DOfBitsS(BitsXor(p, q)))
    [] op = "<<" -> NumV(DOfBitsS(BitsShl(p, n)))
    [] op = ">>" -> NumV(DOfBitsS(BitsSar(p, n)))
    [] op = ">>>" -> NumV(DOfBitsU(BitsShr(p, n)))
BinOp(op, a, b) ==
  IF op = "&&" THEN (IF IsApprox(a) THEN a ELSE IF ToBool(a) THEN b ELSE a)
  ELSE IF op = "||" THEN (IF IsApprox(a) THEN a ELSE IF ToBool(a) THEN a ELSE b)
  ELSE IF op = "," THEN b
  ELSE IF IsApprox(a) THEN a ELSE IF IsApprox(b) THEN b
  ELSE CASE op = "+" -> IF a.k = "str" \/ b.k = "str" THEN VStr(ToStringU(a) \o ToStringU(b))
                        ELSE NumBin("+", ToNumberD(a), ToNumberD(b))
         [] op \in ArithOps -> NumBin(op, ToNumberD(a), ToNumberD(b))
         [] op \in BitOps -> BitBin(op, ToNumberD(a), ToNumberD(b))
         [] op = "<" -> VBool(IsLessThan(a, b) = "t")
         [] op = ">" -> VBool(IsLessThan(b, a) = "t")
         [] op = "<=" -> VBool(IsLessThan(b, a) = "f")
         [] op = ">=" -> VBool(IsLessThan(a, b) = "f")
         [] op = "==" -> VBool(LooseEq(a, b))
         [] op = "!=" -> VBool(~LooseEq(a, b))
         [] op = "===" -> VBool(StrictEq(a, b))
         [] op = "!==" -> VBool(~StrictEq(a, b))
UnOp(op, a) ==
  IF IsApprox(a) THEN (IF op = "void" THEN Undef ELSE a)
  ELSE CASE op = "neg" -> NumV(DNeg(ToNumberD(a)))
         [] op = "pos" -> ToNumberV(a)
         [] op = "!" -> VBool(~ToBool(a))
         [] op = "~" -> NumV(DOfBitsS(BitsNot(DToBits32(ToNumberD(a)))))
         [] op = "typeof" -> VStr(TypeOfU(a))
         [] op = "void" -> Undef
\* ++ / -- : [res, after]: value of the expression, value left in the target
UpdOp(op, prefix, a) ==
  LET old == ToNumberD(a)
      new == IF op = "++" THEN DAdd(old, DOne) ELSE DSub(old, DOne)
  IN [res |-> NumV(IF prefix THEN new ELSE old), after |-> NumV(new)]
\* target op= b  is  Get; Op; Put
CmpdOp(op, a, b) == LET r == BinOp(op, a, b) IN [res |-> r, after |-> r]
CondOp(c, x, y) == IF IsApprox(c) THEN c ELSE IF ToBool(c) THEN x ELSE y

\* ---- expression trees over literals ------------------------------------------------------------
\* [t |-> "lit", v] | [t |-> "un", op, x] | [t |-> "bin", op, l, r] | [t |-> "cond", c, x, y]
RECURSIVE EvalTree(_)
EvalTree(tr) ==
  CASE tr.t = "lit" -> tr.v
    [] tr.t = "un" -> UnOp(tr.op, EvalTree(tr.x))
    [] tr.t = "bin" -> LET l == EvalTree(tr.l)
                       IN IF tr.op = "&&" /\ ~IsApprox(l) /\ ~ToBool(l) THEN l
                          ELSE IF tr.op = "||" /\ ~IsApprox(l) /\ ToBool(l) THEN l
                          ELSE BinOp(tr.op, l, EvalTree(tr.r))
    [] tr.t = "cond" -> LET c == EvalTree(tr.c)
                        IN IF IsApprox(c) THEN c ELSE IF ToBool(c) THEN EvalTree(tr.x) ELSE EvalTree(tr.y)

\* ---- expressions whose operands change the assignment target (round 3) -------------------------
\* One assignment target T holding tv.  Nodes: lit | var (read T) | upd(op, pre) (++T T++ --T T--) | asg(x) (T = x) |
\* cmpd(op, x) (T op= x) | call(w, x) (a call of a function that stores w in T and returns x; w, x are lit nodes) |
\* un | bin | cond.  EvalS = [v |-> value of the expression, t |-> value left in T].  Operands are evaluated left to
\* right, each seeing what the previous one left in T; a compound assignment reads T BEFORE its right operand is
\* evaluated (13.15.2: GetValue(lref) precedes the evaluation of the AssignmentExpression), `T = x` does not read T.
RECURSIVE EvalS(_, _)
EvalS(tr, tv) ==
  CASE tr.t = "lit" -> [v |-> tr.v, t |-> tv]
    [] tr.t = "var" -> [v |-> tv, t |-> tv]
    [] tr.t = "upd" -> IF IsApprox(tv) THEN [v |-> tv, t |-> tv]
                       ELSE LET u == UpdOp(tr.op, tr.pre, tv) IN [v |-> u.res, t |-> u.after]
    [] tr.t = "asg" -> LET e == EvalS(tr.x, tv) IN [v |-> e.v, t |-> e.v]
    [] tr.t = "cmpd" -> LET e == EvalS(tr.x, tv)
                            r == BinOp(tr.op, tv, e.v)
                        IN [v |-> r, t |-> r]
    [] tr.t = "call" -> [v |-> tr.x.v, t |-> tr.w.v]
    [] tr.t = "un" -> LET e == EvalS(tr.x, tv) IN [v |-> UnOp(tr.op, e.v), t |-> e.t]
    [] tr.t = "bin" -> LET l == EvalS(tr.l, tv)
                       IN IF tr.op = "&&" /\ ~IsApprox(l.v) /\ ~ToBool(l.v) THEN l
                          ELSE IF tr.op = "||" /\ ~IsApprox(l.v) /\ ToBool(l.v) THEN l
                          ELSE LET r == EvalS(tr.r, l.t) IN [v |-> BinOp(tr.op, l.v, r.v), t |-> r.t]
    [] tr.t = "cond" -> LET c == EvalS(tr.c, tv)
                        IN IF IsApprox(c.v) THEN c ELSE IF ToBool(c.v) THEN EvalS(tr.x, c.t) ELSE EvalS(tr.y, c.t)

\* does the observed value agree with the specified one ?
ValAgrees(act, exp) ==
  IF IsApprox(exp) THEN act.k = "num" /\ ~WIsNaN(act.w) /\ (WSign(act.w) = exp.s)
  ELSE SameVal(act, exp)
=============================================================================
