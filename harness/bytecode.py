"""Export of real compiler output for the layer-I specifications (child side).

The decoder tables are *read from the engine's own source* (vm.py: the tuples in VM._execute and
VM._call_callback, compiler.py: Compiler._JUMP_OPCODES) so the specification can judge that emitter and
both decoders agree.  Anything that cannot be interpreted raises (machinery failure), never a verdict."""
import ast, inspect


def _tuples_in(func_node):
    """names in `op in ( OpCode.X, ... )` tests of a function body, in order of appearance"""
    out = []
    for n in ast.walk(func_node):
        if isinstance(n, ast.Compare) and len(n.ops) == 1 and isinstance(n.ops[0], ast.In) \
                and isinstance(n.left, ast.Name) and n.left.id == "op" and isinstance(n.comparators[0], ast.Tuple):
            names = []
            for e in n.comparators[0].elts:
                if isinstance(e, ast.Attribute) and isinstance(e.value, ast.Name) and e.value.id == "OpCode":
                    names.append(e.attr)
            out.append((n.lineno, names))
    out.sort()
    return [names for _, names in out]


def decoder_tables():
    """{"_execute": {w16, w8}, "others": {funcname: {w16, w8}}, "emitter": {w16}} read from the engine's source"""
    import microjs.vm as vm
    import microjs.compiler as comp
    tree = ast.parse(inspect.getsource(vm))
    found = {}
    for n in ast.walk(tree):
        if isinstance(n, ast.FunctionDef):
            ts = _tuples_in(n)
            if len(ts) >= 2 and len(ts[0]) >= 3 and len(ts[1]) >= 8:
                found[n.name] = {"w16": sorted(ts[0]), "w8": sorted(ts[1])}
    if "_execute" not in found or len(found) < 2:
        raise RuntimeError("decoder loops not found in vm.py: %s" % sorted(found))
    tabs = {"_execute": found.pop("_execute"), "others": found}
    tabs["emitter"] = {"w16": sorted(o.name for o in comp.Compiler._JUMP_OPCODES)}
    return tabs


def decode(code, w16, w8):
    from microjs.opcodes import OpCode
    out, i, n = [], 0, len(code)
    while i < n:
        op = OpCode(code[i]).name
        if op in w16:
            if i + 2 >= n + 0 and i + 2 > n - 1 + 1:
                raise RuntimeError("truncated 16-bit operand at %d" % i)
            out.append({"at": i, "op": op, "arg": code[i + 1] | (code[i + 2] << 8), "len": 3})
            i += 3
        elif op in w8:
            out.append({"at": i, "op": op, "arg": code[i + 1], "len": 2})
            i += 2
        else:
            out.append({"at": i, "op": op, "arg": -1, "len": 1})
            i += 1
    return out


def export(src, tables=None, with_index=True):
    """Compile src with the current tree; one record per function (main first)."""
    from microjs.parser import Parser
    from microjs.compiler import Compiler, CompiledFunction
    tables = tables or decoder_tables()
    w16, w8 = set(tables["_execute"]["w16"]), set(tables["_execute"]["w8"])
    main = Compiler().compile(Parser(src).parse())
    funcs, todo = [], [main]
    while todo:
        f = todo.pop(0)
        fid = len(funcs)
        instrs = decode(f.bytecode, w16, w8)
        rec = {"fid": fid, "name": f.name or "", "nbytes": len(f.bytecode), "instrs": instrs,
               "nparams": len(f.params), "nlocals": f.num_locals, "nconsts": len(f.constants),
               "ismain": fid == 0}
        if with_index:
            ix = [0] * (len(f.bytecode) + 1)
            for k, ins in enumerate(instrs):
                ix[ins["at"]] = k + 1
            rec["ix"] = ix
        funcs.append(rec)
        for c in f.constants:
            if isinstance(c, CompiledFunction):
                todo.append(c)
    return funcs
