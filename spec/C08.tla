-------------------------------- MODULE C08 --------------------------------
EXTENDS ObjModel, Json, IOUtils, SequencesExt

VARIABLE c_cell          \* Part B: the call-form cell being enumerated / judged (Part A keeps it constant)
NoCell == [form |-> "", kind |-> "", ret |-> "", via |-> ""]

EnvOr(n, d) == IF n \in DOMAIN IOEnv THEN IOEnv[n] ELSE d
NatOf == [t \in {ToString(j) : j \in 0..64} |-> CHOOSE j \in 0..64 : ToString(j) = t]
MaxLen == NatOf[EnvOr("MAXLEN", "2")]

\* the operations random generators may draw from: the alphabet of states with 0..3 allocated slots
USt(n) == [State0 EXCEPT !.h = [x \in Ids |-> IF \E j \in 1..n : Slots[j] = x THEN Plain("OP") ELSE State0.h[x]]]
Universe == UNION {Alphabet(USt(n), 1) : n \in 0..3}
EInit == /\ MInit /\ c_cell = NoCell
         /\ PrintT(ToJson([on |-> BatteryOn, objs |-> BatteryObjs, glob |-> BatteryGlob]))
         /\ PrintT(ToJson([universe |-> Universe]))
ENext == Len(m_hist) < MaxLen /\ MNext /\ UNCHANGED c_cell
EmitAll == m_hist = <<>> \/ PrintT(ToJson([h |-> m_hist]))
\* -simulate walks: TLC evaluates invariants on every candidate successor, so a walk is printed by the one
\* extra step taken from the state the walk actually reached
SimInit == MInit /\ c_cell = NoCell
SimNext == /\ UNCHANGED c_cell
           /\ IF Len(m_hist) < MaxLen THEN MNext
              ELSE /\ Len(m_hist) = MaxLen
                   /\ PrintT(ToJson([h |-> m_hist]))
                   /\ m_hist' = Append(m_hist, Op("end", "", "", "", 0, ""))
                   /\ UNCHANGED <<m_st, m_prev>>

\* ==============================================================================================
\* Part B: call form x function kind.  Strict-mode semantics (this is undefined in plain calls).
\* Driver setup (checks/c08_driver.py):  every function takes (a, b) and returns the probe
\*   [this, arguments.length, arguments[0], arguments[1], a, b] and has THREE parameters (a, b, c);  calls pass (1, 2);
\*   bound = fd.bind(bt, 5, 6);  the arrow is created inside host.mk(7, 8);  native = Object.prototype.valueOf;
\*   the getter is a literal accessor of recv (form "method" = the property access recv.f);
\*   form "arrow" calls recv.go() with go = function(){ return (() => this.f(1, 2))(); }.
Forms == {"method", "plain", "call", "apply", "bind", "new", "arrow"}
Kinds == {"decl", "expr", "named", "arrow", "method", "propfn", "getter", "bound", "native"}
Rets  == {"none", "num", "str", "null", "undef", "bool", "obj", "arr", "fn"}
TableCells == {[form |-> f, kind |-> k, ret |-> "", via |-> ""] : f \in Forms, k \in Kinds}
         \cup {[form |-> "newret", kind |-> c, ret |-> r, via |-> ""] : r \in Rets, c \in {"decl", "expr", "bound"}}
         \cup {[form |-> "chain", kind |-> c, ret |-> "", via |-> ""] : c \in {"assign", "setproto", "literal"}}
SeqSetC(sq) == {sq[j] : j \in 1..Len(sq)}
CallDevs == {"Dev_ArrowThis", "Dev_ArrowArguments", "Dev_NonConstructorNew", "Dev_NewBound", "Dev_BindOfBound",
             "Dev_FnNameInference", "Dev_BoundName", "Dev_NativeFn", "Dev_NewReturnFn",
             "Dev_FnProtoAssign", "Dev_FnProtoNoObjectProto",
             "Dev_NativeThis", "Dev_ToStringFnClass", "Dev_FnNotObject", "Dev_PrimitiveNoProto", "Dev_ArrayAccessors",
             "Dev_EnumSkipsAccessors", "Dev_KeyNoToPrimitive", "Dev_InstanceofBound"}

ThisOf(form) == CASE form = "method" -> "@recv" [] form = "plain" -> "u" [] form \in {"call", "apply", "bind"} -> "@x1"
                  [] form = "new" -> "@?" [] form = "arrow" -> "@recv"
NonCtor == {"arrow", "method", "getter", "native"}
P(v) == <<v, "">>                                     \* an expected aspect value with no deviation attached
D(v, d) == <<v, d>>
Args(n, x, y, pa, pb) == ("alen" :> P(n)) @@ ("a0" :> P(x)) @@ ("a1" :> P(y)) @@ ("pa" :> P(pa)) @@ ("pb" :> P(pb))
ArgsD(n, x, y, pa, pb, d) == ("alen" :> D(n, d)) @@ ("a0" :> D(x, d)) @@ ("a1" :> D(y, d)) @@ ("pa" :> D(pa, d)) @@ ("pb" :> D(pb, d))
Inst(b) == ("linked" :> P(b)) @@ ("inst" :> P(b))
KindLength(kind) == CASE kind = "getter" -> "n0" [] kind = "bound" -> "n1" [] kind = "native" -> "n0" [] OTHER -> "n3"
KindName(kind) == CASE kind = "decl" -> "'fd" [] kind = "expr" -> "'fe" [] kind = "named" -> "'nm" [] kind = "arrow" -> "'"
                    [] kind = "method" -> "'f" [] kind = "propfn" -> "'f" [] kind = "getter" -> "'get f"
                    [] kind = "bound" -> "'bound fd" [] kind = "native" -> "'valueOf"

\* reference expectation of a product cell: a function aspect -> <<value, "">>
RefCell(form, kind) ==
  LET props == ("length" :> P(KindLength(kind))) @@ ("name" :> P(KindName(kind)))
      okout == "out" :> P("ok")
      throw == ("out" :> P("!TypeError")) @@ ("this" :> P("u")) @@ Inst("false") @@ Args("u", "u", "u", "u", "u")
      isnew == form = "new"
  IN props @@
     (CASE kind \in NonCtor /\ isnew -> throw
        [] kind \in {"decl", "expr", "named", "propfn", "method"} ->
             okout @@ ("this" :> P(ThisOf(form))) @@ Inst(IF isnew THEN "true" ELSE "false") @@ Args("n2", "n1", "n2", "n1", "n2")
        [] kind = "arrow" -> okout @@ ("this" :> P("@host")) @@ Inst("false") @@ Args("n2", "n7", "n8", "n1", "n2")   \* lexical this and arguments
        [] kind = "getter" ->
             IF form \in {"method", "arrow"} THEN okout @@ ("this" :> P("@recv")) @@ Inst("false") @@ Args("n0", "u", "u", "u", "u")
             ELSE okout @@ ("this" :> P(ThisOf(form))) @@ Inst("false") @@ Args("n2", "n1", "n2", "u", "u")
        [] kind = "bound" ->                                  \* bound this wins over every call form; new ignores it
             okout @@ ("this" :> P(IF isnew THEN "@?" ELSE "@bt")) @@ Inst(IF isnew THEN "true" ELSE "false")
                   @@ Args("n4", "n5", "n6", "n5", "n6")
        [] kind = "native" ->
             IF form = "plain" THEN throw
             ELSE okout @@ ("this" :> P(ThisOf(form))) @@ Inst("false") @@ Args("u", "u", "u", "u", "u"))

Ov(c, upd, base) == IF c THEN upd @@ base ELSE base
AsIsCell(form, kind, dv) ==
  LET isnew == form = "new"
      b0 == RefCell(form, kind)
      b1 == Ov("Dev_ArrowArguments" \in dv /\ kind = "arrow", ArgsD("n2", "n1", "n2", "n1", "n2", "Dev_ArrowArguments"), b0)
      b2 == Ov("Dev_ArrowThis" \in dv /\ kind = "arrow" /\ ~isnew, "this" :> D(ThisOf(form), "Dev_ArrowThis"), b1)
      b3 == Ov("Dev_NonConstructorNew" \in dv /\ isnew /\ kind \in {"arrow", "method", "getter"},
               ("out" :> D("ok", "Dev_NonConstructorNew")) @@ ("this" :> D("@?", "Dev_NonConstructorNew"))
               @@ ("linked" :> D("true", "Dev_NonConstructorNew")) @@ ("inst" :> D("true", "Dev_NonConstructorNew"))
               @@ ArgsD("n2", "n1", "n2", IF kind = "getter" THEN "u" ELSE "n1", IF kind = "getter" THEN "u" ELSE "n2", "Dev_NonConstructorNew"), b2)
      b4 == Ov("Dev_NewBound" \in dv /\ kind = "bound" /\ isnew,
               ("this" :> D("@bt", "Dev_NewBound")) @@ ("linked" :> D("false", "Dev_NewBound")) @@ ("inst" :> D("false", "Dev_NewBound")), b3)
      b5 == Ov("Dev_BindOfBound" \in dv /\ kind = "bound" /\ form = "bind",
               ("this" :> D("@x1", "Dev_BindOfBound")) @@ ArgsD("n2", "n1", "n2", "n1", "n2", "Dev_BindOfBound"), b4)
      b6 == Ov("Dev_FnNameInference" \in dv /\ kind \in {"expr", "method", "propfn", "getter"}, "name" :> D("'", "Dev_FnNameInference"), b5)
      b7 == Ov("Dev_BoundName" \in dv /\ kind = "bound", "name" :> D("'fd", "Dev_BoundName"), b6)
      b8 == Ov("Dev_NativeFn" \in dv /\ kind = "native",
               ("length" :> D("u", "Dev_NativeFn")) @@ ("name" :> D("u", "Dev_NativeFn"))
               @@ (IF form = "plain" THEN ("out" :> D("ok", "Dev_NativeFn")) @@ ("this" :> D("n1", "Dev_NativeFn")) ELSE <<>>), b7)
      \* form "arrow": the wrapper arrow does not see the this of go(), so this.f fails
      b9 == Ov("Dev_ArrowThis" \in dv /\ form = "arrow", "out" :> D("!TypeError", "Dev_ArrowThis"), b8)
  IN b9
ProductAspects(kind) == IF kind = "native" THEN <<"out", "this", "length", "name">>
                        ELSE <<"out", "this", "linked", "inst", "alen", "a0", "a1", "pa", "pb", "length", "name">>

\* new-return rules:  function C(){ this.p = 1; return RET }  r = new K()   (K = C, or C.bind(bt))
RefRet(ret, ctor) ==
  IF ret \in {"obj", "arr", "fn"}
  THEN ("out" :> P("ok")) @@ ("this" :> P(CASE ret = "obj" -> "@ro" [] ret = "arr" -> "@ra" [] ret = "fn" -> "@rf"))
       @@ Inst("false") @@ ("p" :> P("u"))                                   \* an object return value is honoured
  ELSE ("out" :> P("ok")) @@ ("this" :> P("@?")) @@ Inst("true") @@ ("p" :> P("n1"))   \* a primitive one is ignored
AsIsRet(ret, ctor, dv) ==
  LET b0 == RefRet(ret, ctor)
      b1 == Ov("Dev_NewReturnFn" \in dv /\ ret = "fn",
               ("this" :> D("@?", "Dev_NewReturnFn")) @@ ("linked" :> D("true", "Dev_NewReturnFn")) @@ ("inst" :> D("true", "Dev_NewReturnFn"))
               @@ ("p" :> D("n1", "Dev_NewReturnFn")), b0)
      b2 == Ov("Dev_NewBound" \in dv /\ ctor = "bound" /\ (ret \notin {"obj", "arr", "fn"} \/ (ret = "fn" /\ "Dev_NewReturnFn" \in dv)),
               ("this" :> D("@?", "Dev_NewBound")) @@ ("linked" :> D("false", "Dev_NewBound")) @@ ("inst" :> D("false", "Dev_NewBound"))
               @@ ("p" :> D("u", "Dev_NewBound")), b1)
  IN b2
RetAspects == <<"out", "this", "linked", "inst", "p">>

\* constructor chains: o = new B() with B.prototype chained to A.prototype by `how`
ChainAspects == <<"out", "r1", "r2", "r3", "r4", "r5", "r6", "r7", "r8", "r9">>
RefChain(how) == ("out" :> P("ok")) @@ ("r1" :> P("true")) @@ ("r2" :> P("true")) @@ ("r3" :> P("n1")) @@ ("r4" :> P("n2"))
                 @@ ("r5" :> P("true")) @@ ("r6" :> P("true")) @@ ("r7" :> P("true")) @@ ("r8" :> P("true")) @@ ("r9" :> P("true"))
AsIsChain(how, dv) ==
  LET b1 == Ov("Dev_FnProtoAssign" \in dv /\ how \in {"assign", "literal"},
               ("r2" :> D("false", "Dev_FnProtoAssign")) @@ ("r6" :> D("false", "Dev_FnProtoAssign")), RefChain(how))
  IN Ov("Dev_FnProtoNoObjectProto" \in dv, "r7" :> D("'!TypeError", "Dev_FnProtoNoObjectProto"), b1)

\* ==============================================================================================
\* Part C: the KIND of the this-value x every call form that takes an explicit this x function kind.
\* The table of Part B hands objects over as this; here the value is an object, an array, a function, a truthy
\* primitive, 0, -0, '', false, NaN, null, undefined, or is not written at all ("absent").  Strict-mode semantics: no
\* boxing, the function sees the very value (typeof this tells a wrapper object from the primitive).
\* Driver (checks/c08_driver.py tv_driver): the probe stores [this, arguments.length, arguments[0..1], a, b, typeof this];
\*   bound = fd.bind(bt, 5, 6);  the arrow is created inside host.mk(7, 8);  native = Object.prototype.toString (answers
\*   with the class of its this);  call forms (TV = the value):
\*   call f.call(TV,1,2) | apply f.apply(TV,[1,2]) | bind f.bind(TV)(1,2) | bindcall f.bind(TV).call(x2,1,2) |
\*   bindmethod recv.g = f.bind(TV), recv.g(1,2) | callcall f.call.call(f,TV,1,2) | callapply f.call.apply(f,[TV,1,2]) |
\*   map/filter/forEach/find/findIndex/some/every [4].m(f,TV) | reduce/reduceRight/sort [4,5].m(f) (no thisArg position) |
\*   primrecv Object.prototype.pm = f, TV.pm(1,2) | primget  accessor pg on Object.prototype with getter f, TV.pg
TVias  == {"call", "apply", "bind", "bindcall", "bindmethod", "callcall", "callapply", "map", "filter", "forEach", "find",
           "findIndex", "some", "every", "reduce", "reduceRight", "sort", "primrecv", "primget"}
TKinds == {"decl", "expr", "method", "getter", "arrow", "bound", "native"}
TVals  == {"obj", "arr", "fn", "num", "str", "true", "zero", "negzero", "empty", "false", "nan", "null", "undef", "absent"}
TPrims == {"num", "str", "true", "zero", "negzero", "empty", "false", "nan"}
ArrVias == {"map", "filter", "forEach", "find", "findIndex", "some", "every"}
NoThisVias == {"reduce", "reduceRight", "sort"}          \* callbacks of methods without a thisArg position
RecvVias == {"primrecv", "primget"}                       \* the this-value is the receiver of a property access
ResultVias == {"call", "apply", "bind", "bindcall", "bindmethod", "callcall", "callapply", "map", "primrecv", "primget"}
TApplicable(via, tk) == IF via \in NoThisVias THEN tk = "absent" ELSE IF via \in RecvVias THEN tk # "absent" ELSE TRUE
TCellsAll == {[form |-> "tv", kind |-> k, ret |-> t, via |-> v] : k \in TKinds, t \in TVals, v \in TVias}
Tier == EnvOr("TIER", "thorough")
\* quick: every call form x every this-value kind for one ordinary function and for the kinds with a rule of their own
\* (arrow, bound, native); the remaining ordinary kinds with a representative of each class of this-value
TCells == {c \in TCellsAll : /\ TApplicable(c.via, c.ret)
                             /\ (Tier # "quick" \/ c.kind \in {"decl", "arrow", "bound", "native"}
                                 \/ c.ret \in {"obj", "zero", "empty", "null", "absent"})}

TVal(tk) == CASE tk = "obj" -> "@x1" [] tk = "arr" -> "@ra" [] tk = "fn" -> "@rf" [] tk = "num" -> "n3" [] tk = "str" -> "'a"
              [] tk = "true" -> "true" [] tk = "zero" -> "n0" [] tk = "negzero" -> "n-0" [] tk = "empty" -> "'"
              [] tk = "false" -> "false" [] tk = "nan" -> "nnan" [] tk = "null" -> "null" [] tk \in {"undef", "absent"} -> "u"
TTypeOf(tk) == CASE tk \in {"obj", "arr", "null"} -> "'object" [] tk = "fn" -> "'function"
                 [] tk \in {"num", "zero", "negzero", "nan"} -> "'number" [] tk \in {"str", "empty"} -> "'string"
                 [] tk \in {"true", "false"} -> "'boolean" [] tk \in {"undef", "absent"} -> "'undefined"
TClassOf(tk) == CASE tk = "obj" -> "'[object Object]" [] tk = "arr" -> "'[object Array]" [] tk = "fn" -> "'[object Function]"
                  [] tk \in {"num", "zero", "negzero", "nan"} -> "'[object Number]" [] tk \in {"str", "empty"} -> "'[object String]"
                  [] tk \in {"true", "false"} -> "'[object Boolean]" [] tk = "null" -> "'[object Null]"
                  [] tk \in {"undef", "absent"} -> "'[object Undefined]"
TGiven(via, tk) == IF via \in NoThisVias THEN "absent" ELSE tk     \* what the call form hands over as this
TReached(via, tk) == ~(via \in RecvVias /\ tk \in {"null", "undef"})   \* a property access on null / undefined throws
NTok(n) == "n" \o ToString(n)
\* the arguments the call form passes: count, first, second
TArgs(via, tk) ==
  CASE via \in {"call", "apply", "callcall", "callapply"} ->
         IF tk = "absent" THEN [n |-> 0, x |-> "u", y |-> "u"] ELSE [n |-> 2, x |-> "n1", y |-> "n2"]
    [] via \in {"bind", "bindcall", "bindmethod", "primrecv"} -> [n |-> 2, x |-> "n1", y |-> "n2"]
    [] via = "primget" -> [n |-> 0, x |-> "u", y |-> "u"]
    [] via \in ArrVias -> [n |-> 3, x |-> "n4", y |-> "n0"]                      \* (element, index, array)
    [] via = "reduce" -> [n |-> 4, x |-> "n4", y |-> "n5"]                      \* (accumulator, element, index, array)
    [] via = "reduceRight" -> [n |-> 4, x |-> "n5", y |-> "n4"]
    [] via = "sort" -> [n |-> 2, x |-> "?", y |-> "?"]                          \* comparator: the order of the pair is not specified
TNone(out) == ("out" :> out) @@ ("ran" :> P("false")) @@ ("this" :> P("u")) @@ ("ttype" :> P("u"))
              @@ Args("u", "u", "u", "u", "u") @@ ("cls" :> P("u"))
RefTV(via, kind, tk) ==
  LET g == TGiven(via, tk)
      ar == TArgs(via, tk)
      th == CASE kind = "arrow" -> <<"@host", "'object">>                        \* lexical this
              [] kind = "bound" -> <<"@bt", "'object">>                          \* the bound this wins
              [] OTHER -> <<TVal(g), TTypeOf(g)>>                               \* the very value, not boxed
      ag == CASE kind = "arrow" -> Args("n2", "n7", "n8", ar.x, ar.y)            \* lexical arguments
              [] kind = "bound" -> Args(NTok(ar.n + 2), "n5", "n6", "n5", "n6")
              [] kind = "getter" -> Args(NTok(ar.n), ar.x, ar.y, "u", "u")
              [] OTHER -> Args(NTok(ar.n), ar.x, ar.y, ar.x, ar.y)
  IN IF ~TReached(via, tk) THEN TNone(P("!TypeError"))
     ELSE IF kind = "native" THEN ("cls" :> P(TClassOf(g))) @@ TNone(P("ok"))
     ELSE ("out" :> P("ok")) @@ ("ran" :> P("true")) @@ ("this" :> P(th[1])) @@ ("ttype" :> P(th[2])) @@ ag @@ ("cls" :> P("-"))
AsIsTV(via, kind, tk, dv) ==
  LET g == TGiven(via, tk)
      ar == TArgs(via, tk)
      reached == TReached(via, tk)
      b0 == RefTV(via, kind, tk)
      \* arrows read this / arguments from their own frame: they see what an ordinary function would see
      b1 == Ov("Dev_ArrowArguments" \in dv /\ kind = "arrow" /\ reached,
               ArgsD(NTok(ar.n), ar.x, ar.y, ar.x, ar.y, "Dev_ArrowArguments"), b0)
      b2 == Ov("Dev_ArrowThis" \in dv /\ kind = "arrow" /\ reached,
               ("this" :> D(TVal(g), "Dev_ArrowThis")) @@ ("ttype" :> D(TTypeOf(g), "Dev_ArrowThis")), b1)
      \* Object.prototype.toString classifies a script function as a plain object
      b3 == Ov("Dev_ToStringFnClass" \in dv /\ kind = "native" /\ g = "fn" /\ reached,
               "cls" :> D("'[object Object]", "Dev_ToStringFnClass"), b2)
      \* a native method invoked as an array callback takes its FIRST ARGUMENT (the element 4) as this; invoked as an
      \* accessor it is called without this and a Python TypeError escapes
      b4 == Ov("Dev_NativeThis" \in dv /\ kind = "native" /\ via \in ArrVias, "cls" :> D("'[object Number]", "Dev_NativeThis"), b3)
      b5 == Ov("Dev_NativeThis" \in dv /\ kind = "native" /\ via = "primget" /\ reached, "out" :> D("host:TypeError", "Dev_NativeThis"), b4)
      \* receivers that do not reach Object.prototype: the method is not found (TypeError), the accessor does not run
      lost(d) == IF via = "primrecv" THEN "out" :> D("!TypeError", d)
                 ELSE ("out" :> D("ok", d)) @@ ("ran" :> D("false", d)) @@ ("this" :> D("u", d)) @@ ("ttype" :> D("u", d))
                      @@ ArgsD("u", "u", "u", "u", "u", d) @@ ("cls" :> D("u", d))
      b6 == Ov("Dev_FnNotObject" \in dv /\ via \in RecvVias /\ tk = "fn", lost("Dev_FnNotObject"), b5)
      b7 == Ov("Dev_PrimitiveNoProto" \in dv /\ via \in RecvVias /\ tk \in TPrims, lost("Dev_PrimitiveNoProto"), b6)
      b8 == Ov("Dev_ArrayAccessors" \in dv /\ via = "primget" /\ tk = "arr", lost("Dev_ArrayAccessors"), b7)
  IN b8
TVAspects(via, kind) ==
  IF kind = "native" THEN (IF via \in ResultVias THEN <<"out", "cls">> ELSE <<"out">>)
  ELSE IF via = "sort" THEN <<"out", "ran", "this", "ttype", "alen">>
  ELSE <<"out", "ran", "this", "ttype", "alen", "a0", "a1", "pa", "pb">>
\* laws of the this-value table (model-checked over all its cells)
TVLaws(c) ==
  LET r(v) == RefTV(v, c.kind, c.ret)
      me == r(c.via)
      ordinary == c.kind \in {"decl", "expr", "method", "getter"}
      same(v1, v2) == (TApplicable(v1, c.ret) /\ TApplicable(v2, c.ret)) => r(v1) = r(v2)
  IN /\ same("call", "apply") /\ same("call", "callcall") /\ same("call", "callapply")     \* one protocol, four spellings
     /\ same("bind", "bindcall") /\ same("bind", "bindmethod")                            \* a bound this is final
     /\ \A v1, v2 \in ArrVias : same(v1, v2)
     \* whatever the call form, the function sees the value that was given (ordinary functions) ...
     /\ (ordinary /\ TReached(c.via, c.ret) =>
           /\ me["this"] = P(TVal(TGiven(c.via, c.ret))) /\ me["ttype"] = P(TTypeOf(TGiven(c.via, c.ret)))
           /\ (c.ret \in TPrims /\ c.via \notin NoThisVias => me["ttype"] # P("'object")))   \* ... and never a wrapper object
     /\ (c.kind = "arrow" /\ TReached(c.via, c.ret) => me["this"] = P("@host"))             \* lexical
     /\ (c.kind = "bound" /\ TReached(c.via, c.ret) => me["this"] = P("@bt"))
     \* an explicit undefined and a this that is not written are the same thing
     /\ (c.ret = "undef" /\ TApplicable(c.via, "absent") =>
           \A a \in {"this", "ttype", "cls"} : me[a] = RefTV(c.via, c.kind, "absent")[a])
     /\ (c.via \in NoThisVias /\ c.kind \notin {"arrow", "bound", "native"} => me["this"] = P("u"))
     /\ (c.kind = "native" /\ TReached(c.via, c.ret) => me["cls"] = P(TClassOf(TGiven(c.via, c.ret))))

\* ==============================================================================================
\* Part D: the KIND of the value a computed key evaluates to  x  every site that turns a key into a property name.
\* Parts A-C write computed keys whose value is a string.  A key may be any value: ToPropertyKey converts it ONCE to a
\* property name, and every site that takes a key (member read / write / delete / update / compound assignment, the
\* computed key of an object literal - data or accessor -, defineProperty, getOwnPropertyDescriptor, `in`, both
\* hasOwnProperty routes) and every site that hands names out (keys / values / entries / for-in) must agree on that name.
\* A cell is a history of two steps on  o = {z: 0}  and  q = Object.create(o)  (made after step 1), the whole
\* battery being observed after each step:
\*   step 1 (write site w, key spelled sp):  set o[K] = 1 | lit o = {z: 0, [K]: 1} | def defineProperty(o, K, {value: 1})
\*          | litget o = {z: 0, get [K](){ return 7 }} | defget defineProperty(o, K, {get: function(){ return 7 }})
\*   step 2 (ret):  none | set o[K] = 5 | setS o[S] = 5 | inc o[K]++ | add o[K] += 2 | del delete o[K] | delS delete o[S]
\*          | def / defS defineProperty(o, K / S, {value: 6}) | qset q[K] = 4 | qdel delete q[K]
\*   spelling sp: "var" the key value sits in the variable K; "inline" the key expression is written in place (o[1 < 2]).
\*   S is the canonical name KName(kind) as a string: the driver receives it from this specification.
\* Driver: checks/c08_driver.py key_driver (the JavaScript expression of each key kind is its rendering table KEY_EXPR).
KKinds == {"str", "empty", "numstr", "str01", "strneg0", "int", "zero", "negzero", "neg", "frac", "floatint", "bigint",
           "nan", "inf", "ninf", "true", "false", "cmp", "null", "undef", "arr0", "arr1", "arrs", "arr2", "obj", "objts"}
KName(kk) == CASE kk \in {"str", "arrs", "objts"} -> "a"          \* 'a' | ['a'] | {toString(){ return 'a' }}
               [] kk \in {"empty", "arr0"} -> ""                  \* '' | []
               [] kk \in {"numstr", "int", "floatint", "arr1"} -> "1"   \* '1' | 1 | 2 / 2 | [1]
               [] kk = "str01" -> "01"  [] kk = "strneg0" -> "-0"  \* strings are names as they are (not canonical numbers)
               [] kk \in {"zero", "negzero"} -> "0"               \* 0 | -0
               [] kk = "neg" -> "-1"  [] kk = "frac" -> "1.5"  [] kk = "bigint" -> "4294967296"
               [] kk = "nan" -> "NaN"  [] kk = "inf" -> "Infinity"  [] kk = "ninf" -> "-Infinity"
               [] kk \in {"true", "cmp"} -> "true"                \* true | 1 < 2
               [] kk = "false" -> "false"  [] kk = "null" -> "null"  [] kk = "undef" -> "undefined"
               [] kk = "arr2" -> "1,2"  [] kk = "obj" -> "[object Object]"
KIntLike == {"0", "1", "4294967296"}       \* integer-like names: ES enumerates them first, the documented contract is silent (DESIGN 4.4(2))
KDataWrites == {"set", "lit", "def"}
KAccWrites == {"litget", "defget"}
KWrites == KDataWrites \cup KAccWrites
KSpells == {"var", "inline"}
KSeconds == {"none", "set", "setS", "inc", "add", "del", "delS", "def", "defS", "qset", "qdel"}
KAccSeconds == {"none", "del", "delS", "def", "defS", "qdel"}     \* a getter-only accessor is not assigned to (that rule is Part A's)
KVia(w, sp) == w \o "." \o sp
KWOf(via) == CHOOSE w \in KWrites : \E sp \in KSpells : via = KVia(w, sp)
KSpOf(via) == CHOOSE sp \in KSpells : \E w \in KWrites : via = KVia(w, sp)
KApplicable(w, sec) == w \in KDataWrites \/ sec \in KAccSeconds
KShapesAll == {sh \in KWrites \X KSpells \X KSeconds : KApplicable(sh[1], sh[3])}        \* <<write site, spelling, second step>>
\* quick: every key kind with each of these shapes: every write site in both spellings and every second step occur
\* with every key kind (KGridLaw), not their full product
KQuickShapes == {<<"set", "var", x>> : x \in {"setS", "inc", "del", "defS", "qset"}}
           \cup {<<"lit", "var", x>> : x \in {"set", "add", "delS", "def", "qdel"}}
           \cup {<<"def", "var", x>> : x \in {"set", "del", "none"}}
           \cup {<<"litget", "var", "del">>, <<"defget", "var", "defS">>}
           \cup {<<"set", "inline", "del">>, <<"lit", "inline", "inc">>, <<"def", "inline", "setS">>,
                 <<"litget", "inline", "delS">>, <<"defget", "inline", "def">>}
KShapes == IF Tier = "quick" THEN KQuickShapes ELSE KShapesAll
KCells == {[form |-> "key", kind |-> kk, ret |-> sh[3], via |-> KVia(sh[1], sh[2])] : kk \in KKinds, sh \in KShapes}
KGridLaw == /\ KShapes \subseteq KShapesAll
            /\ \A w \in KWrites : \A sp \in KSpells : \E sh \in KShapes : sh[1] = w /\ sh[2] = sp
            /\ \A sec \in KSeconds : \E sh \in KShapes : sh[3] = sec
            /\ \A sec \in KAccSeconds \ {"none", "qdel"} : \E sh \in KShapes : sh[1] \in KAccWrites /\ sh[3] = sec
ASSUME KGridLaw

\* ---- the reference model: own properties of o and of q, in creation order ---------------------------------------
KeyDevs == {"Dev_EnumSkipsAccessors", "Dev_KeyNoToPrimitive"}
KEnt(k, v, acc) == [k |-> k, v |-> v, acc |-> acc]
KIdx(own, nm) == IF \E j \in 1..Len(own) : own[j].k = nm THEN CHOOSE j \in 1..Len(own) : own[j].k = nm ELSE 0
KUpd(own, nm, v) == LET j == KIdx(own, nm) IN IF j = 0 THEN Append(own, KEnt(nm, v, FALSE)) ELSE [own EXCEPT ![j] = KEnt(nm, v, FALSE)]
KDel(own, nm) == SelectSeq(own, LAMBDA e : e.k # nm)
KVal(own, nm) == LET j == KIdx(own, nm) IN IF j = 0 THEN "u" ELSE own[j].v
\* the name a site computes from the key, by route: K (the value in a variable), I (the expression in place), S (the
\* canonical name as a string).  As-is (Dev_KeyNoToPrimitive): an object's own toString is not consulted.
KNameBy(kk, r, dv) == IF r # "S" /\ kk = "objts" /\ "Dev_KeyNoToPrimitive" \in dv THEN "[object Object]" ELSE KName(kk)
KPlus(v, n) == IF v = "n1" THEN (IF n = 1 THEN "n2" ELSE "n3") ELSE "nnan"
KState1(kk, w, dv) ==
  [o |-> <<KEnt("z", "n0", FALSE), KEnt(KNameBy(kk, "K", dv), IF w \in KAccWrites THEN "n7" ELSE "n1", w \in KAccWrites)>>, q |-> <<>>]
KState2(st, kk, sec, dv) ==
  LET nk == KNameBy(kk, "K", dv)
      ns == KNameBy(kk, "S", dv)
  IN CASE sec = "none" -> st
       [] sec = "set"  -> [st EXCEPT !.o = KUpd(st.o, nk, "n5")]
       [] sec = "setS" -> [st EXCEPT !.o = KUpd(st.o, ns, "n5")]
       [] sec = "inc"  -> [st EXCEPT !.o = KUpd(st.o, nk, KPlus(KVal(st.o, nk), 1))]
       [] sec = "add"  -> [st EXCEPT !.o = KUpd(st.o, nk, KPlus(KVal(st.o, nk), 2))]
       [] sec = "del"  -> [st EXCEPT !.o = KDel(st.o, nk)]
       [] sec = "delS" -> [st EXCEPT !.o = KDel(st.o, ns)]
       [] sec = "def"  -> [st EXCEPT !.o = KUpd(st.o, nk, "n6")]
       [] sec = "defS" -> [st EXCEPT !.o = KUpd(st.o, ns, "n6")]
       [] sec = "qset" -> [st EXCEPT !.q = KUpd(st.q, nk, "n4")]          \* a write creates an own property of the receiver only
       [] sec = "qdel" -> [st EXCEPT !.q = KDel(st.q, nk)]
KStateAt(c, dv, stage) == LET s1 == KState1(c.kind, KWOf(c.via), dv) IN IF stage = 1 THEN s1 ELSE KState2(s1, c.kind, c.ret, dv)

\* observations: each aspect -> the SET of acceptable value strings (a list is joined with "|")
KJoin(sq) == IF sq = <<>> THEN "" ELSE FoldLeft(LAMBDA acc, e : acc \o "|" \o e, Head(sq), Tail(sq))
KPerms(sq) == LET n == Len(sq) IN
              {[j \in 1..n |-> sq[p[j]]] : p \in {f \in [1..n -> 1..n] : \A x, y \in 1..n : x # y => f[x] # f[y]}}
KList(ents, how) ==
  LET items == [j \in 1..Len(ents) |-> CASE how = "k" -> "'" \o ents[j].k [] how = "v" -> ents[j].v
                                         [] how = "e" -> "['" \o ents[j].k \o "," \o ents[j].v \o "]"]
  IN IF Len(ents) > 1 /\ \E j \in 1..Len(ents) : ents[j].k \in KIntLike THEN {KJoin(p) : p \in KPerms(items)} ELSE {KJoin(items)}
KBattery == <<"out", "rdK", "rdI", "rdS", "inK", "inI", "inS", "ownK", "ownI", "ownM", "ownS", "gdK", "gdS", "keys", "forin", "vals", "ents",
              "z", "qrdK", "qinK", "qownK", "qkeys">>
KObs(st, kk, dv, a) ==
  LET nk == KNameBy(kk, "K", dv)
      ni == KNameBy(kk, "I", dv)
      ns == KNameBy(kk, "S", dv)
      has(own, nm) == KIdx(own, nm) # 0
      gd(nm) == LET j == KIdx(st.o, nm) IN IF j = 0 THEN "'nod" ELSE IF st.o[j].acc THEN "'acc" ELSE st.o[j].v
      vis == IF "Dev_EnumSkipsAccessors" \in dv THEN SelectSeq(st.o, LAMBDA e : ~e.acc) ELSE st.o
  IN CASE a = "out" -> {"ok"}
       [] a = "rdK" -> {KVal(st.o, nk)}  [] a = "rdI" -> {KVal(st.o, ni)}  [] a = "rdS" -> {KVal(st.o, ns)}
       [] a = "inK" -> {BoolV(has(st.o, nk))}  [] a = "inI" -> {BoolV(has(st.o, ni))}  [] a = "inS" -> {BoolV(has(st.o, ns))}
       [] a \in {"ownK", "ownM"} -> {BoolV(has(st.o, nk))}  [] a = "ownI" -> {BoolV(has(st.o, ni))}  [] a = "ownS" -> {BoolV(has(st.o, ns))}
       [] a = "gdK" -> {gd(nk)}  [] a = "gdS" -> {gd(ns)}
       [] a \in {"keys", "forin"} -> KList(vis, "k")  [] a = "vals" -> KList(vis, "v")  [] a = "ents" -> KList(vis, "e")
       [] a = "z" -> {KVal(st.o, "z")}
       [] a = "qrdK" -> {IF has(st.q, nk) THEN KVal(st.q, nk) ELSE KVal(st.o, nk)}
       [] a = "qinK" -> {BoolV(has(st.q, nk) \/ has(st.o, nk))}
       [] a = "qownK" -> {BoolV(has(st.q, nk))}
       [] a = "qkeys" -> KList(st.q, "k")
KExp(c, dv, stage, a) == KObs(KStateAt(c, dv, stage), c.kind, dv, a)
KStages(c) == IF c.ret = "none" THEN <<1>> ELSE <<1, 2>>

\* laws of the key table (model-checked over all its cells)
KeyLaws(c) ==
  LET w == KWOf(c.via)
      E(st, a) == KExp(c, {}, st, a)
      other(c2, st) == \A j \in 1..Len(KBattery) : KExp(c2, {}, st, KBattery[j]) = E(st, KBattery[j])
      oasp == {"rdK", "rdI", "rdS", "inK", "inI", "inS", "ownK", "ownI", "ownM", "ownS", "gdK", "gdS", "keys", "forin", "vals", "ents", "z"}
  IN /\ \A j \in 1..Len(KBattery) : \A st \in 1..2 : KExp(c, {}, st, KBattery[j]) # {}
     /\ \A st \in 1..2 :
          \* one property, whatever the route ...
          /\ E(st, "rdK") = E(st, "rdI") /\ E(st, "rdK") = E(st, "rdS")
          /\ E(st, "inK") = E(st, "inI") /\ E(st, "inK") = E(st, "inS")
          /\ E(st, "ownK") = E(st, "ownI") /\ E(st, "ownK") = E(st, "ownM") /\ E(st, "ownK") = E(st, "ownS") /\ E(st, "gdK") = E(st, "gdS")
          \* ... listed under its canonical name exactly when it is an own property
          /\ (E(st, "ownK") = {"true"}) <=> (\E x \in E(st, "keys") : x \in {"'z|'" \o KName(c.kind), "'" \o KName(c.kind) \o "|'z"})
          /\ E(st, "keys") = E(st, "forin") /\ (E(st, "ownK") = {"true"} => E(st, "inK") = {"true"})
          /\ (E(st, "inK") = {"false"} => E(st, "rdK") = {"u"}) /\ E(st, "z") = {"n0"}
          \* the same table for every write site of its class, for both spellings, and for every key kind with the same name
          /\ \A w2 \in (IF w \in KDataWrites THEN KDataWrites ELSE KAccWrites) : \A sp \in KSpells : other([c EXCEPT !.via = KVia(w2, sp)], st)
          /\ \A k2 \in KKinds : KName(k2) = KName(c.kind) => other([c EXCEPT !.kind = k2], st)
     \* the canonical string names the same property as the key value
     /\ (c.ret = "setS" => other([c EXCEPT !.ret = "set"], 2)) /\ (c.ret = "delS" => other([c EXCEPT !.ret = "del"], 2))
     /\ (c.ret = "defS" => other([c EXCEPT !.ret = "def"], 2))
     \* a write to / delete on the child changes nothing on o; a delete removes the property for every route
     /\ (c.ret \in {"qset", "qdel", "none"} => \A a \in oasp : E(2, a) = E(1, a))
     /\ (c.ret \in {"del", "delS"} => E(2, "inK") = {"false"} /\ E(2, "ownS") = {"false"} /\ E(2, "keys") = {"'z"} /\ E(2, "qinK") = {"false"})
     /\ (c.ret = "qset" => E(2, "qownK") = {"true"} /\ E(2, "qrdK") = {"n4"} /\ E(2, "rdK") = E(1, "rdK"))
     \* a deviation only ever changes what it names
     /\ \A st \in 1..2 : \A j \in 1..Len(KBattery) :
          /\ (c.kind # "objts" => KExp(c, {"Dev_KeyNoToPrimitive"}, st, KBattery[j]) = E(st, KBattery[j]))
          /\ (w \in KDataWrites => KExp(c, {"Dev_EnumSkipsAccessors"}, st, KBattery[j]) = E(st, KBattery[j]))

\* judge of a key cell: record [id, cell, obs : [b1 : [aspect |-> value], b2 : ...], dv]
KAct(rec, stage, a) == LET b == IF stage = 1 THEN "b1" ELSE "b2"
                       IN IF b \in DOMAIN rec.obs THEN (IF a \in DOMAIN rec.obs[b] THEN rec.obs[b][a] ELSE "missing") ELSE "missing"
KeyVerdict(rec) ==
  LET c == rec.cell
      dv == SeqSetC(rec.dv) \cap KeyDevs
      stages == KStages(c)
      nb == Len(KBattery)
      r1 == KState1(c.kind, KWOf(c.via), {})                 \* the reference states, computed once per cell
      r2 == KState2(r1, c.kind, c.ret, {})
      one(stage, a) ==
        LET act == KAct(rec, stage, a)
            ref == KObs(IF stage = 1 THEN r1 ELSE r2, c.kind, {}, a)
            good == {S \in SUBSET dv : S # {} /\ act \in KExp(c, S, stage, a)}
            lab == ToString(stage) \o ":" \o a
            exp == CHOOSE x \in ref : TRUE
        IN IF act \in ref THEN [aspect |-> lab, v |-> "pass", dev |-> "", exp |-> exp, act |-> act]
           ELSE IF good # {}
                THEN LET S == CHOOSE S \in good : \A T \in good : Cardinality(S) <= Cardinality(T)
                     IN [aspect |-> lab, v |-> "known", dev |-> CHOOSE d \in S : TRUE, exp |-> exp, act |-> act]
           ELSE [aspect |-> lab, v |-> "violation", dev |-> "", exp |-> exp, act |-> act]
      all == [j \in 1..(Len(stages) * nb) |-> one(stages[((j - 1) \div nb) + 1], KBattery[((j - 1) % nb) + 1])]
  IN [id |-> rec.id, mis |-> SelectSeq(all, LAMBDA r : r.v # "pass"), n |-> Len(all)]

\* ==============================================================================================
\* Part E: re-entry.  The probe functions of Parts B-D are LEAVES: their body reports and returns.  A function body may
\* refer to the function itself - through the own name of a named function expression (a binding of the function's own
\* frame), through the name of its declaration or the variable that holds it (a binding of the enclosing scope), through a
\* nested closure that captured one of these - and call it again.  Every level of such a recursion is a call of its own: its
\* this and its arguments are decided by the call form written at THAT call site, not by the form that entered the level
\* above (a bound wrapper, an explicit this, new), and the reference denotes the function itself, not whatever was called.
\* A cell: self-reference kind x OUTER form (enters level 0 with the arguments 1, 2) x INNER form (level 0 calls the
\* self-reference with 3, 4); level 1 always makes the plain call SELF(7, 8), level 2 is a leaf.  Each level records
\* [this, arguments.length, arguments[0], arguments[1], a, b]; level 0 also records SELF === F0 and SELF.length.
\* Driver (checks/c08_driver.py re_driver), F0 = the function, three parameters (a, b, c):
\*   kinds  named        var F0 = function me(a, b, c){ .. me .. }
\*          namedshadow  var me = 'outer'; var F0 = function me(a, b, c){ .. me .. }        (own name over a global of that name)
\*          namedclosure var F0 = function me(a, b, c){ var self = (function(){ return me; })(); .. self .. }
\*          decl         function fd(a, b, c){ .. fd .. } F0 = fd        expr  var F0 = function(a, b, c){ .. F0 .. }
\*          declinner    F0 = (function(){ function inner(a, b, c){ .. inner .. } return inner; })()
\*   outer  plain F0(1,2) | method recv.f(1,2) | call F0.call(x1,1,2) | apply | bind F0.bind(x1)(1,2) | bindargs F0.bind(x1,5,6)(1,2)
\*          | bindcall F0.bind(x1).call(x2,1,2) | bindmethod recv.g = F0.bind(x1), recv.g(1,2) | new new F0(1,2)
\*          | newbound B = F0.bind(x1,5), new B(2) | map [4].map(F0) | mapthis [4].map(F0, x1) | mapbound [4].map(F0.bind(x1))
\*   inner  plain SELF(3,4) | call SELF.call(x2,3,4) | apply SELF.apply(x2,[3,4]) | bind SELF.bind(x2,3)(4)
\*          | method o2.m = SELF, o2.m(3,4) | new new SELF(3,4)
RKinds  == {"named", "namedshadow", "namedclosure", "decl", "expr", "declinner"}
ROwnName == {"named", "namedshadow", "namedclosure"}
ROuters == {"plain", "method", "call", "apply", "bind", "bindargs", "bindcall", "bindmethod", "new", "newbound",
            "map", "mapthis", "mapbound"}
RInners == {"plain", "call", "apply", "bind", "method", "new"}
RCellsAll == {[form |-> "re", kind |-> k, ret |-> n, via |-> o] : k \in RKinds, n \in RInners, o \in ROuters}
\* quick: the kinds with an own name (the binding lives in the function's frame) with the whole product; the kinds that find
\* themselves through the enclosing scope with every outer form x {plain, new} and every inner form x {plain, bind}
RCells == {c \in RCellsAll : Tier # "quick" \/ c.kind \in ROwnName \/ c.ret \in {"plain", "new"} \/ c.via \in {"plain", "bind"}}
RGridLaw == /\ \A k \in RKinds, o \in ROuters : \E c \in RCells : c.kind = k /\ c.via = o
            /\ \A k \in RKinds, n \in RInners : \E c \in RCells : c.kind = k /\ c.ret = n
            /\ \A o \in ROuters, n \in RInners : \E c \in RCells : c.via = o /\ c.ret = n
ASSUME RGridLaw
\* what a call form hands to the level it enters: this, fresh instance?, arguments
RLevel(th, fresh, n, x, y) == [th |-> th, fresh |-> fresh, n |-> n, x |-> x, y |-> y]
ROuterLevel(o) ==
  CASE o = "plain" -> RLevel("u", FALSE, 2, "n1", "n2")
    [] o = "method" -> RLevel("@recv", FALSE, 2, "n1", "n2")
    [] o \in {"call", "apply", "bind", "bindcall", "bindmethod"} -> RLevel("@x1", FALSE, 2, "n1", "n2")
    [] o = "bindargs" -> RLevel("@x1", FALSE, 4, "n5", "n6")
    [] o = "new" -> RLevel("@?", TRUE, 2, "n1", "n2")
    [] o = "newbound" -> RLevel("@?", TRUE, 2, "n5", "n2")                       \* new ignores the bound this, keeps the bound arguments
    [] o = "map" -> RLevel("u", FALSE, 3, "n4", "n0")                            \* (element, index, array)
    [] o \in {"mapthis", "mapbound"} -> RLevel("@x1", FALSE, 3, "n4", "n0")
RInnerLevel(n) ==
  CASE n = "plain" -> RLevel("u", FALSE, 2, "n3", "n4")
    [] n \in {"call", "apply", "bind"} -> RLevel("@x2", FALSE, 2, "n3", "n4")
    [] n = "method" -> RLevel("@o2", FALSE, 2, "n3", "n4")
    [] n = "new" -> RLevel("@?", TRUE, 2, "n3", "n4")
RLeafLevel == RLevel("u", FALSE, 2, "n7", "n8")                                  \* SELF(7, 8): a plain call
RSuffix(a, j) == a \o ToString(j)
RLevelAspects(j, lv) == (RSuffix("t", j) :> P(lv.th)) @@ (RSuffix("l", j) :> P(IF lv.fresh THEN "true" ELSE "false"))
                        @@ (RSuffix("n", j) :> P(NTok(lv.n))) @@ (RSuffix("x", j) :> P(lv.x)) @@ (RSuffix("y", j) :> P(lv.y))
                        @@ (RSuffix("p", j) :> P(lv.x)) @@ (RSuffix("q", j) :> P(lv.y))
RefRE(kind, outer, inner) ==
  ("out" :> P("ok")) @@ ("depth" :> P("n3")) @@ ("same" :> P("true")) @@ ("slen" :> P("n3"))
  @@ RLevelAspects(0, ROuterLevel(outer)) @@ RLevelAspects(1, RInnerLevel(inner)) @@ RLevelAspects(2, RLeafLevel)
REAspects == <<"out", "depth", "same", "slen", "t0", "l0", "n0", "x0", "y0", "p0", "q0", "t1", "l1", "n1", "x1", "y1", "p1", "q1",
               "t2", "l2", "n2", "x2", "y2", "p2", "q2">>
\* laws of the re-entry table: a level depends on the call form that entered it and on nothing else
RELaws(c) ==
  LET me == RefRE(c.kind, c.via, c.ret)
      lvl(r, j) == [a \in {"t", "l", "n", "x", "y", "p", "q"} |-> r[RSuffix(a, j)]]
  IN /\ \A a \in SeqSetC(REAspects) : a \in DOMAIN me
     /\ \A k \in RKinds : RefRE(k, c.via, c.ret) = me                                       \* however the function finds itself
     /\ \A o \in ROuters : lvl(RefRE(c.kind, o, c.ret), 1) = lvl(me, 1) /\ lvl(RefRE(c.kind, o, c.ret), 2) = lvl(me, 2)
     /\ \A n \in RInners : lvl(RefRE(c.kind, c.via, n), 0) = lvl(me, 0) /\ lvl(RefRE(c.kind, c.via, n), 2) = lvl(me, 2)
     /\ me["same"] = P("true")                                                              \* the reference is the function itself
     /\ (c.ret = "plain" => me["t1"] = P("u")) /\ me["t2"] = P("u")                          \* a plain call: this undefined, whoever called
     /\ (me["l1"] = P("true") <=> c.ret = "new") /\ (me["l0"] = P("true") <=> c.via \in {"new", "newbound"})
     /\ me["n1"] = P("n2") /\ me["x1"] = P("n3") /\ me["y1"] = P("n4")                       \* the arguments written, nothing in front

\* ==============================================================================================
\* Part F: derivation chains.  In Parts B-E a bound function is bind applied ONCE to a declaration.  bind takes any function
\* and gives a function, so the function kind "bound" is a whole family: a base function (of every kind that has a body) with
\* a CHAIN of bind levels on top, each level with its own this and its own number of bound arguments (none, one, two: the
\* sum may exceed the parameter count).  What the property says about a function of that family: this is the FIRST level's
\* (new ignores it and links the instance to the base's prototype), the arguments are the bound arguments of every level in
\* order followed by the call's own, length is the base's minus everything bound and never below 0, name gains one
\* "bound " per level, and binding again leaves the function that was bound as it was.
\* A cell: base kind x chain (one digit per level = number of arguments bound there, depth 1..3) x the form that calls the
\* outermost function h.  Level j binds this = tj and the arguments 10j+1, 10j+2; the call passes (1, 2).
\* Driver (checks/c08_driver.py bc_driver): every base has three parameters and returns [this, all its arguments, a, b, c];
\*   g0 = f; gj = g(j-1).bind(tj, ...); h = the last one, prev = the one before;  afterwards prev(1, 2) is called and
\*   prev.length / prev.name are read (depth 1: prev is the base function itself);
\*   forms  plain h(1,2) | call h.call(x1,1,2) | apply h.apply(x1,[1,2]) | method recv.h = h, recv.h(1,2) | new new h(1,2)
\*          | map ra4.map(h)[0]   (ra4 = [4]: arguments element, index, array)
\*   the arrow base is created inside host.mk(7, 8).
BKinds == {"decl", "expr", "named", "method", "arrow"}
BForms == {"plain", "call", "apply", "method", "new", "map"}
BSeqs == UNION {[1..d -> 0..2] : d \in 1..3}
BStr(sq) == FoldLeft(LAMBDA acc, e : acc \o ToString(e), "", sq)
BChainsAll == {BStr(sq) : sq \in BSeqs}
BOf(via) == CHOOSE sq \in BSeqs : BStr(sq) = via
\* quick: every chain of depth 1 and 2, and depth-3 chains in which every level takes every count
BQuickChains == {BStr(sq) : sq \in {x \in BSeqs : Len(x) <= 2}} \cup {"111", "012", "120", "201", "222"}
BChains == IF Tier = "quick" THEN BQuickChains ELSE BChainsAll
BCellsAll == {[form |-> "bc", kind |-> k, ret |-> f, via |-> ch] : k \in BKinds, f \in BForms, ch \in BChainsAll}
\* quick: the declaration with every form, every other base kind with a plain call and with new
BCells == {c \in BCellsAll : c.via \in BChains /\ (Tier # "quick" \/ c.kind = "decl" \/ c.ret \in {"plain", "new"})}
BGridLaw == /\ BChains \subseteq BChainsAll
            /\ \A k \in BKinds, ch \in BChains : \E c \in BCells : c.kind = k /\ c.via = ch
            /\ \A f \in BForms, ch \in BChains : \E c \in BCells : c.ret = f /\ c.via = ch
            /\ \A k \in BKinds : \E c \in BCells : c.kind = k /\ c.ret = "new"
            /\ \A d \in 1..3 : \A p \in 1..d : \A n \in 0..2 : \E ch \in BChains : Len(BOf(ch)) = d /\ BOf(ch)[p] = n
            /\ \A n1, n2 \in 0..2 : \E ch \in BChains : Len(BOf(ch)) >= 2 /\ BOf(ch)[1] = n1 /\ BOf(ch)[2] = n2
ASSUME BGridLaw
BSum(sq) == FoldLeft(LAMBDA acc, e : acc + e, 0, sq)
BBound(sq) == FoldLeft(LAMBDA acc, j : acc \o [i \in 1..sq[j] |-> NTok(10 * j + i)], <<>>, [j \in 1..Len(sq) |-> j])
BCallArgs(form) == IF form = "map" THEN <<"n4", "n0", "@ra4">> ELSE <<"n1", "n2">>
BListTok(sq) == "[" \o (IF Len(sq) = 0 THEN "" ELSE FoldLeft(LAMBDA acc, e : acc \o "," \o e, sq[1], SubSeq(sq, 2, Len(sq)))) \o "]"
BAt(sq, j) == IF j <= Len(sq) THEN sq[j] ELSE "u"
BBase(kind) == CASE kind = "decl" -> "fd" [] kind = "expr" -> "fe" [] kind = "named" -> "nm" [] kind = "method" -> "f" [] kind = "arrow" -> ""
BPrefix(d) == CASE d = 0 -> "" [] d = 1 -> "bound " [] d = 2 -> "bound bound " [] d = 3 -> "bound bound bound "
BLen(sq) == LET r == 3 - BSum(sq) IN NTok(IF r < 0 THEN 0 ELSE r)
BNonCtor == {"arrow", "method"}
BNewAspects == {"this", "linked", "inst", "insth", "alen", "args", "pa", "pb", "pc"}
\* the model, parameterised by the deviations in force (dv = {} is ECMA-262): aspect -> value
BCModel(kind, sq, form, dv) ==
  LET d == Len(sq)
      isnew == form = "new"
      arrow == kind = "arrow"
      base == IF kind \in {"expr", "method"} /\ "Dev_FnNameInference" \in dv THEN "" ELSE BBase(kind)
      ownargs == ~arrow \/ "Dev_ArrowArguments" \in dv            \* an arrow's arguments are those of host.mk(7, 8)
      ownthis == ~arrow \/ "Dev_ArrowThis" \in dv                 \* an arrow's this is that of host.mk
      ctor == kind \notin BNonCtor \/ "Dev_NonConstructorNew" \in dv
      all == BBound(sq) \o BCallArgs(form)
      seen == IF ownargs THEN all ELSE <<"n7", "n8">>
      psq == SubSeq(sq, 1, d - 1)
      pseen == IF ownargs THEN BBound(psq) \o <<"n1", "n2">> ELSE <<"n7", "n8">>
      th == IF ~ownthis THEN "@host" ELSE IF isnew THEN "@?" ELSE "@t1"      \* the first level's this; new ignores it
      fresh == BoolV(isnew /\ ownthis)
      common == ("length" :> BLen(sq)) @@ ("name" :> "'" \o BPrefix(d) \o base) @@ ("pout" :> "ok") @@ ("pargs" :> BListTok(pseen))
                @@ ("plen" :> BLen(psq)) @@ ("pname" :> "'" \o BPrefix(d - 1) \o base)
      \* as-is (Dev_InstanceofBound): instanceof with a bound function on the right looks for a prototype object of the bound
      \* function itself, finds none and answers false (ES: it asks the function that was bound)
      insth == IF "Dev_InstanceofBound" \in dv THEN "false" ELSE fresh
      ran == ("out" :> "ok") @@ ("this" :> th) @@ ("linked" :> fresh) @@ ("inst" :> fresh) @@ ("insth" :> insth)
             @@ ("alen" :> NTok(Len(seen))) @@ ("args" :> BListTok(seen)) @@ ("pa" :> BAt(all, 1)) @@ ("pb" :> BAt(all, 2)) @@ ("pc" :> BAt(all, 3))
      thrown == ("out" :> "!TypeError") @@ [a \in BNewAspects |-> "u"]
  IN common @@ (IF isnew /\ ~ctor THEN thrown ELSE ran)
RefBC(kind, via, form) == LET m == BCModel(kind, BOf(via), form, {}) IN [a \in DOMAIN m |-> P(m[a])]
AsIsBC(kind, via, form, dv) ==
  LET r == BCModel(kind, BOf(via), form, {})
      x == BCModel(kind, BOf(via), form, dv)
      lab(a) == IF a \in {"name", "pname"} THEN "Dev_FnNameInference"
                ELSE IF a = "insth" /\ "Dev_InstanceofBound" \in dv THEN "Dev_InstanceofBound"
                ELSE IF form = "new" /\ kind \in BNonCtor /\ a \notin {"pargs"} THEN "Dev_NonConstructorNew"
                ELSE IF a \in {"this", "linked", "inst", "insth"} THEN "Dev_ArrowThis" ELSE "Dev_ArrowArguments"
  IN [a \in DOMAIN x |-> IF x[a] = r[a] THEN P(x[a]) ELSE D(x[a], lab(a))]
BCAspects(form) == IF form = "new" THEN <<"out", "this", "linked", "inst", "insth", "alen", "args", "pa", "pb", "pc", "length", "name", "pout", "pargs", "plen", "pname">>
                   ELSE <<"out", "this", "alen", "args", "pa", "pb", "pc", "length", "name", "pout", "pargs", "plen", "pname">>
\* laws of the chain table (model-checked over all its cells)
BCLaws(c) ==
  LET sq == BOf(c.via)
      d == Len(sq)
      me == BCModel(c.kind, sq, c.ret, {})
      pre == BCModel(c.kind, SubSeq(sq, 1, d - 1), "plain", {})       \* the chain without its last level, called plainly
      num(t) == CHOOSE n \in 0..64 : NTok(n) = t
  IN /\ \A a \in SeqSetC(BCAspects(c.ret)) : a \in DOMAIN me
     \* one more level: length shrinks by what that level binds and stops at 0, name gains one prefix
     /\ (d >= 2 => /\ num(me["length"]) = (IF num(pre["length"]) > sq[d] THEN num(pre["length"]) - sq[d] ELSE 0)
                   /\ BPrefix(d) = "bound " \o BPrefix(d - 1)
                   /\ me["name"] = "'" \o BPrefix(d) \o BBase(c.kind) /\ pre["name"] = "'" \o BPrefix(d - 1) \o BBase(c.kind))
     /\ (d = 1 => me["name"] = "'bound " \o BBase(c.kind) /\ me["plen"] = "n3" /\ me["pname"] = "'" \o BBase(c.kind))
     \* binding again leaves the function that was bound as it was
     /\ (d >= 2 => me["pargs"] = pre["args"] /\ me["plen"] = pre["length"] /\ me["pname"] = pre["name"])
     \* this is the first level's whatever follows and whatever the form, except new; an arrow keeps its lexical this
     /\ (me["out"] = "ok" /\ c.ret # "new" => me["this"] = (IF c.kind = "arrow" THEN "@host" ELSE "@t1"))
     /\ (me["out"] = "ok" => me["this"] = BCModel(c.kind, <<sq[1]>>, c.ret, {})["this"])
     /\ \A f \in BForms \ {"new"} : BCModel(c.kind, sq, f, {})["this"] = BCModel(c.kind, sq, "plain", {})["this"]
     /\ BCModel(c.kind, sq, "call", {}) = BCModel(c.kind, sq, "apply", {})
     \* new: a fresh linked instance exactly for constructors, a TypeError otherwise
     /\ (c.ret = "new" => (me["out"] = "!TypeError") <=> (c.kind \in BNonCtor))
     /\ (c.ret = "new" /\ me["out"] = "ok" => me["this"] = "@?" /\ me["linked"] = "true" /\ me["inst"] = "true" /\ me["insth"] = "true")
     \* the arguments: everything bound, level by level, then the call's own; nothing is lost, nothing doubled
     /\ (me["out"] = "ok" /\ c.kind # "arrow" => /\ num(me["alen"]) = BSum(sq) + Len(BCallArgs(c.ret))
                                                /\ BBound(sq) = BBound(SubSeq(sq, 1, d - 1)) \o [i \in 1..sq[d] |-> NTok(10 * d + i)]
                                                /\ me["args"] = BListTok(BBound(sq) \o BCallArgs(c.ret)))
     /\ (me["out"] = "ok" /\ c.kind = "arrow" => me["args"] = "[n7,n8]")
     \* length / name do not depend on the form
     /\ \A f \in BForms : BCModel(c.kind, sq, f, {})["length"] = me["length"] /\ BCModel(c.kind, sq, f, {})["name"] = me["name"]
     \* a deviation changes only what it names
     /\ (c.kind \in {"decl", "named"} => AsIsBC(c.kind, c.via, c.ret, CallDevs \ {"Dev_InstanceofBound"}) = RefBC(c.kind, c.via, c.ret))
     /\ \A a \in DOMAIN me \ {"insth"} : BCModel(c.kind, sq, c.ret, {"Dev_InstanceofBound"})[a] = me[a]

Cells == TableCells \cup TCells \cup KCells \cup RCells \cup BCells
CellRef(c) == IF c.form = "bc" THEN RefBC(c.kind, c.via, c.ret) ELSE IF c.form = "re" THEN RefRE(c.kind, c.via, c.ret) ELSE IF c.form = "tv" THEN RefTV(c.via, c.kind, c.ret) ELSE IF c.form = "chain" THEN RefChain(c.kind) ELSE IF c.form = "newret" THEN RefRet(c.ret, c.kind) ELSE RefCell(c.form, c.kind)
CellAsIs(c, dv) == IF c.form = "bc" THEN AsIsBC(c.kind, c.via, c.ret, dv) ELSE IF c.form = "re" THEN RefRE(c.kind, c.via, c.ret) ELSE IF c.form = "tv" THEN AsIsTV(c.via, c.kind, c.ret, dv) ELSE IF c.form = "chain" THEN AsIsChain(c.kind, dv) ELSE IF c.form = "newret" THEN AsIsRet(c.ret, c.kind, dv)
                   ELSE AsIsCell(c.form, c.kind, dv)
CellAspects(c) == IF c.form = "bc" THEN BCAspects(c.ret) ELSE IF c.form = "re" THEN REAspects ELSE IF c.form = "tv" THEN TVAspects(c.via, c.kind) ELSE IF c.form = "chain" THEN ChainAspects ELSE IF c.form = "newret" THEN RetAspects ELSE ProductAspects(c.kind)

\* laws of the table itself (model-checked over all cells)
CallLaws(c) ==
  /\ CellAsIs(c, {}) = CellRef(c)                                                         \* no deviation = reference
  /\ \A a \in SeqSetC(CellAspects(c)) : a \in DOMAIN CellRef(c) /\ a \in DOMAIN CellAsIs(c, CallDevs)
  /\ (c.form = "tv" => TVLaws(c))
  /\ (c.form = "re" => RELaws(c))
  /\ (c.form = "bc" => BCLaws(c))
  /\ (c.form \in Forms =>
        LET r == RefCell(c.form, c.kind) IN
        /\ RefCell("call", c.kind) = RefCell("apply", c.kind)                             \* call and apply agree
        /\ (c.kind = "arrow" /\ c.form # "new" => r["this"] = P("@host"))                 \* lexical this
        /\ (c.kind = "bound" /\ c.form # "new" => r["this"] = P("@bt"))                   \* bound this wins
        /\ (c.form = "new" => (r["out"] = P("!TypeError")) <=> (c.kind \in NonCtor))
        /\ (c.form = "new" /\ r["out"] = P("ok") => r["linked"] = P("true") /\ r["inst"] = P("true"))
        /\ (c.form = "plain" /\ c.kind \in {"decl", "expr", "named", "method", "propfn", "getter"} => r["this"] = P("u")))

\* a key cell is printed with the canonical name and its write site / spelling (the driver renders, it does not convert)
CInit == /\ MInit /\ c_cell \in Cells
         /\ PrintT(ToJson(IF c_cell.form = "key"
                          THEN [form |-> c_cell.form, kind |-> c_cell.kind, ret |-> c_cell.ret, via |-> c_cell.via,
                                name |-> KName(c_cell.kind), w |-> KWOf(c_cell.via), sp |-> KSpOf(c_cell.via)]
                          ELSE c_cell))
CNext == UNCHANGED <<c_cell, m_vars>>
CLawsHold == IF c_cell.form = "key" THEN KeyLaws(c_cell) ELSE CallLaws(c_cell)

\* judge: records [id, cell, obs, dv]
ActOf(rec, a) ==
  IF a \in {"r1", "r2", "r3", "r4", "r5", "r6", "r7", "r8", "r9"}
  THEN LET j == CHOOSE m \in 1..9 : a = "r" \o ToString(m) IN IF "r" \in DOMAIN rec.obs /\ j <= Len(rec.obs.r) THEN rec.obs.r[j] ELSE "missing"
  ELSE IF a \in DOMAIN rec.obs THEN rec.obs[a] ELSE "missing"
CellVerdict(rec) ==
  LET c == rec.cell
      dv == SeqSetC(rec.dv)
      ref == CellRef(c)
      asis == CellAsIs(c, dv)
      actout == ActOf(rec, "out")
      always == {"out", "length", "name", "pout", "pargs", "plen", "pname"}     \* read whether or not the call threw
      judged == SelectSeq(CellAspects(c), LAMBDA a : a \in always \/ actout = "ok")
      \* the engine may have some of the listed defects repaired: an aspect is explained if SOME subset of the
      \* deviations relevant to this cell predicts it (all of them is tried first)
      rel == {d \in dv : CellAsIs(c, {d}) # ref \/ CellAsIs(c, dv) # CellAsIs(c, dv \ {d})}
      \* subsets of the relevant deviations under which EVERY judged aspect is the reference's or the as-is value
      whole == {S \in SUBSET rel : LET x == CellAsIs(c, S) IN
                  \A j \in 1..Len(judged) : LET a == judged[j] act == ActOf(rec, a) IN
                     \/ (a \in always \/ ref["out"][1] = "ok") /\ act = ref[a][1]
                     \/ (a \in always \/ x["out"][1] = "ok") /\ act = x[a][1]}
      one(a) == LET act == ActOf(rec, a)
                    refok == (a \in always \/ ref["out"][1] = "ok") /\ act = ref[a][1]
                    okUnder(S) == LET x == CellAsIs(c, S)
                                  IN (a \in always \/ x["out"][1] = "ok") /\ act = x[a][1]
                                     /\ (x[a][2] # "" \/ x["out"][2] # "")
                    devUnder(S) == LET x == CellAsIs(c, S) IN IF x[a][2] # "" THEN x[a][2] ELSE x["out"][2]
                    good0 == {S \in SUBSET rel : okUnder(S)}
                    good == IF good0 \cap whole # {} THEN good0 \cap whole ELSE good0   \* prefer a set that explains the whole cell
                IN IF refok THEN [aspect |-> a, v |-> "pass", dev |-> "", exp |-> ref[a][1], act |-> act]
                   ELSE IF okUnder(rel) /\ rel \in good THEN [aspect |-> a, v |-> "known", dev |-> devUnder(rel), exp |-> ref[a][1], act |-> act]
                   ELSE IF good # {} THEN [aspect |-> a, v |-> "known", dev |-> devUnder(CHOOSE S \in good : TRUE), exp |-> ref[a][1], act |-> act]
                   ELSE [aspect |-> a, v |-> "violation", dev |-> "", exp |-> ref[a][1], act |-> act]
      all == [j \in 1..Len(judged) |-> one(judged[j])]
  IN [id |-> rec.id, mis |-> SelectSeq(all, LAMBDA r : r.v # "pass"), n |-> Len(judged)]
CJudgeInit == /\ MInit
              /\ LET all == ndJsonDeserialize(IOEnv.OBS_FILE) IN
                 \E j \in 1..Len(all) : c_cell = all[j].cell /\ PrintT(ToJson(IF all[j].cell.form = "key" THEN KeyVerdict(all[j]) ELSE CellVerdict(all[j])))
=============================================================================
