"""Parent side: run cases against the engine in child interpreters (fresh import of /repo/src)."""
import os, subprocess, json
from .common import VERIF, REPO, PY, NPROC, Machinery, write_ndjson, read_ndjson, workdir


def run_cases(pid, cases, driver="", procs=None, hashseed="0", tag="eng", timeout=3600, extra_env=None):
    """cases: list of dicts with unique 'id'. Returns list of result dicts (order not guaranteed)."""
    if not cases:
        return []
    procs = min(procs or NPROC, max(1, len(cases) // 20 or 1))
    wd = workdir(pid, tag)
    shards = [[] for _ in range(procs)]
    for i, c in enumerate(cases):
        shards[i % procs].append(c)
    env = dict(os.environ)
    env["PYTHONPATH"] = os.path.join(REPO, "src") + os.pathsep + VERIF
    env["MICROJS_VERIF"] = "1"
    env["PYTHONHASHSEED"] = str(hashseed)
    env["PYTHONDONTWRITEBYTECODE"] = "1"
    if extra_env:
        env.update(extra_env)
    ps = []
    for k, sh in enumerate(shards):
        cin = os.path.join(wd, "cases_%d.ndjson" % k)
        cout = os.path.join(wd, "res_%d.ndjson" % k)
        write_ndjson(cin, sh)
        p = subprocess.Popen([PY, os.path.join(VERIF, "harness", "engine_child.py"), cin, cout, driver],
                             env=env, stdout=subprocess.PIPE, stderr=subprocess.PIPE, cwd=VERIF)
        ps.append((p, cout, len(sh)))
    results = []
    for p, cout, n in ps:
        try:
            so, se = p.communicate(timeout=timeout)
        except subprocess.TimeoutExpired:
            p.kill()
            raise Machinery("engine child timed out")
        if p.returncode != 0:
            raise Machinery("engine child failed rc=%s: %s" % (p.returncode, se.decode(errors="replace")[-2000:]))
        rs = read_ndjson(cout)
        for r in rs:
            if "machinery" in r:
                raise Machinery("driver error on case %r: %s" % (r.get("id"), r["machinery"]))
        results.extend(rs)
    return results
