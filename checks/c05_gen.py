"""Python mirror of the MiniAst constructors (spec/MiniAst.tla) and the seeded generator of larger
random MiniJS programs.  Everything here emits the *specification's* AST as JSON-able dicts; source
text is produced only by harness/render.py, expectations only by MiniJS in TLC."""

NoE = {"e": "none"}
NoS = {"s": "none"}


def Num(n): return {"e": "num", "n": n}
def Str(s): return {"e": "str", "s": s}
def Bool(b): return {"e": "bool", "b": b}
Undef = {"e": "undef"}
Null = {"e": "null"}
def Var(x, nid=0): return {"e": "var", "x": x, "nid": nid}
def Bin(o, l, r): return {"e": "bin", "o": o, "l": l, "r": r}
def Un(o, x): return {"e": "un", "o": o, "x": x}
def And(l, r): return {"e": "logic", "o": "&&", "l": l, "r": r}
def Or(l, r): return {"e": "logic", "o": "||", "l": l, "r": r}
def Cond(c, a, b): return {"e": "cond", "c": c, "a": a, "b": b}
def Asg(x, r): return {"e": "asg", "x": x, "r": r}
def CAsg(o, x, r): return {"e": "casg", "o": o, "x": x, "r": r}
def Upd(o, pre, x): return {"e": "upd", "o": o, "pre": pre, "x": x}
def Mem(o, p, nid=0): return {"e": "mem", "o": o, "p": p, "dot": False, "nid": nid}
def Dot(o, name, nid=0): return {"e": "mem", "o": o, "p": Str(name), "dot": True, "nid": nid}
def MAsg(m, r): return {"e": "masg", "m": m, "r": r}
def MUpd(o, pre, m): return {"e": "mupd", "o": o, "pre": pre, "m": m}
def Call(f, a, nid=0): return {"e": "call", "f": f, "a": list(a), "nid": nid}
def New(f, a, nid=0): return {"e": "new", "f": f, "a": list(a), "nid": nid}
def Fun(name, params, body): return {"e": "fun", "name": name, "params": list(params), "body": list(body), "arrow": False}
def Arrow(params, body): return {"e": "fun", "name": "", "params": list(params), "body": list(body), "arrow": True}
def Arr(a): return {"e": "arr", "a": list(a)}
def Obj(ks, vs): return {"e": "obj", "ks": list(ks), "vs": list(vs)}
def Comma(a): return {"e": "seq", "a": list(a)}
def Log(x): return Call(Var("log"), [x])

def SExpr(x): return {"s": "expr", "x": x}
def SLog(x): return SExpr(Log(x))
def SVar(*ds): return {"s": "var", "ds": [{"x": x, "i": i} for x, i in ds]}
def SFun(name, params, body): return {"s": "fdecl", "name": name, "params": list(params), "body": list(body)}
def SBlock(b): return {"s": "block", "b": list(b)}
SEmpty = {"s": "empty"}
def SIf(c, a, b=NoS): return {"s": "if", "c": c, "a": a, "b": b}
def SWhile(c, b): return {"s": "while", "c": c, "b": b}
def SDo(b, c): return {"s": "dowhile", "c": c, "b": b}
def SFor(i, c, u, b): return {"s": "for", "i": i, "c": c, "u": u, "b": b}
def SForIn(decl, x, o, b): return {"s": "forin", "decl": decl, "x": x, "o": o, "b": b}
def SForOf(decl, x, o, b): return {"s": "forof", "decl": decl, "x": x, "o": o, "b": b}
def Case(t, b): return {"t": t, "b": list(b)}
def SSwitch(d, cs): return {"s": "switch", "d": d, "cs": list(cs)}
def SLabel(l, b): return {"s": "label", "l": l, "b": b}
def SBreak(l=""): return {"s": "break", "l": l}
def SCont(l=""): return {"s": "continue", "l": l}
def SRet(x=NoE): return {"s": "return", "x": x}
def SThrow(x, nid=0): return {"s": "throw", "x": x, "nid": nid}
def STry(b, cv="e", c=NoS, f=NoS): return {"s": "try", "b": b, "cv": cv, "c": c, "f": f}
def Prog(body): return {"body": list(body)}
