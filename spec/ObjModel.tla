------------------------------ MODULE ObjModel ------------------------------
(* C08 - the ECMAScript object model as an explicit state machine.                     *)
(*                                                                                      *)
(* Part 1 (variable-free): state records, the operation alphabet, one operator per      *)
(*   rule.  Every rule takes `dv`, the set of named deviations in force: {} is the      *)
(*   ECMAScript reference; a deviation switches ONE rule to the engine's as-is          *)
(*   behaviour (DESIGN 2.3).                                                            *)
(* Part 2: the state machine (Init/Next over the alphabet), its invariants and the      *)
(*   frame (action) property; used for model checking, for enumerating histories and    *)
(*   for -simulate walks.                                                               *)
(*                                                                                      *)
(* Values are strings:  "u" undefined, "null", "n7" the number 7, "'txt" the string     *)
(*   txt, "@o1" a reference, "[x,y]" an array, "true"/"false", "!TypeError" a throw.    *)
(* Scripted accessors: getter g returns ['g<g>', this]; setter s(v) does                *)
(*   this.s = 's<s>:' + v  (shadow key "s").                                            *)
EXTENDS Naturals, Integers, Sequences, FiniteSets, TLC

Slots   == <<"o1", "o2", "o3">>
SlotSet == {"o1", "o2", "o3"}
Fixed   == {"Fp", "Gp", "OP", "FnP"}          \* F.prototype / G.prototype as created, Object.prototype, Function.prototype
Ids     == SlotSet \cup Fixed
Touch   == {"o1", "o2", "o3", "Fp", "Gp"}     \* objects histories operate on and observe
Keys    == {"a", "b", "1", "s"}               \* "s": shadow key written by setters only
Fns     == {"F", "G"}

AllDevs == {"Dev_FnProtoNoObjectProto", "Dev_FnProtoAssign", "Dev_InOwnOnly", "Dev_ProtoCycle", "Dev_ComputedKeyLiteral",
            "Dev_FnNotObject", "Dev_CtorEnumerable", "Dev_GetterFirst", "Dev_SetterFirst",
            "Dev_DeleteKeepsAccessor", "Dev_EnumSkipsAccessors", "Dev_DefinePropMerge"}

\* ---------------------------------------------------------------------------------------------
\* state:  [h : Ids -> object, fp : Fns -> Ids, clk : Nat]
\* object: [kind : "none"|"plain"|"function", proto : Ids \cup {"null"}, own : Seq(entry)]
\* entry:  [k, d (has a data part), v, ord (stamp of the data part), g, st (accessor ids, 0 = none), en]
\*   reference states keep d <=> (g = 0 /\ st = 0); as-is states may carry both parts (separate tables)
NoObj == [kind |-> "none", proto |-> "null", own |-> <<>>]
Plain(p) == [kind |-> "plain", proto |-> p, own |-> <<>>]
Ent(k, d, v, ord, g, st, en) == [k |-> k, d |-> d, v |-> v, ord |-> ord, g |-> g, st |-> st, en |-> en]
CtorEnt(f) == Ent("constructor", TRUE, "fn:" \o f, 0, 0, 0, FALSE)

State0D(dv) ==
  [h |-> [x \in Ids |->
            CASE x = "OP"  -> Plain("null")
              [] x = "FnP" -> Plain("OP")
              [] x = "Fp"  -> [Plain(IF "Dev_FnProtoNoObjectProto" \in dv THEN "null" ELSE "OP") EXCEPT !.own = <<CtorEnt("F")>>]
              [] x = "Gp"  -> [Plain("Fp") EXCEPT !.own = <<CtorEnt("G")>>]     \* setup: setPrototypeOf(G.prototype, F.prototype)
              [] OTHER     -> NoObj],
   fp |-> [f \in Fns |-> IF f = "F" THEN "Fp" ELSE "Gp"],
   clk |-> 1]
State0 == State0D({})

Alloc(st, x) == x \in Ids /\ st.h[x].kind # "none"
IsFn(st, x)  == st.h[x].kind = "function"
Dead(st, dv, x) == IsFn(st, x) /\ "Dev_FnNotObject" \in dv      \* as-is: function values are not objects
NextFree(st) == IF ~Alloc(st, "o1") THEN "o1" ELSE IF ~Alloc(st, "o2") THEN "o2" ELSE IF ~Alloc(st, "o3") THEN "o3" ELSE "none"

VNum(n) == IF n = 0 THEN "u" ELSE "n" \o ToString(n)
SetterStr(sid, n) == "'s" \o ToString(sid) \o ":" \o (IF n = 0 THEN "undefined" ELSE ToString(n))
GetterVal(g, x) == "['g" \o ToString(g) \o ",@" \o x \o "]"

IdxOf(own, k) == IF \E j \in 1..Len(own) : own[j].k = k THEN CHOOSE j \in 1..Len(own) : own[j].k = k ELSE 0
HasEnt(st, x, k) == IdxOf(st.h[x].own, k) # 0
EntOf(st, x, k) == st.h[x].own[IdxOf(st.h[x].own, k)]
IsAcc(e) == e.g # 0 \/ e.st # 0
RemoveAt(sq, j) == [m \in 1..(Len(sq) - 1) |-> IF m < j THEN sq[m] ELSE sq[m + 1]]

RECURSIVE ChainF(_, _, _)
ChainF(st, x, fuel) == IF x = "null" \/ fuel = 0 THEN <<>> ELSE <<x>> \o ChainF(st, st.h[x].proto, fuel - 1)
Chain(st, x) == ChainF(st, x, 8)                \* x, its prototype, ... (cut after 8 links: total on cyclic as-is states)
ChainSet(st, x) == {Chain(st, x)[j] : j \in 1..Len(Chain(st, x))}
Cyclic(st, x) == Len(Chain(st, x)) = 8
FirstWith(st, ch, P(_)) ==                       \* first object of the chain satisfying P, or "null"
  IF \E j \in 1..Len(ch) : P(ch[j]) THEN ch[CHOOSE j \in 1..Len(ch) : P(ch[j]) /\ \A m \in 1..(j - 1) : ~P(ch[m])] ELSE "null"

\* ---------------------------------------------------------------------------------------------
\* observations (pure).  Every result is a sequence of value strings: list-valued observations
\* one element per entry, scalar ones a singleton, a throw <<"!TypeError">>.
GetRef(st, x, k) ==          \* OrdinaryGet: own first, then the chain; accessor runs with the receiver
  LET o == FirstWith(st, Chain(st, x), LAMBDA y : HasEnt(st, y, k))
  IN IF o = "null" THEN "u"
     ELSE LET e == EntOf(st, o, k)
          IN IF IsAcc(e) THEN (IF e.g # 0 THEN GetterVal(e.g, x) ELSE "u") ELSE e.v
GetAsIs(st, x, k) ==         \* vm.py _get_property: any getter on the chain first, then data own/chain
  LET og == FirstWith(st, Chain(st, x), LAMBDA y : HasEnt(st, y, k) /\ EntOf(st, y, k).g # 0)
      od == FirstWith(st, Chain(st, x), LAMBDA y : HasEnt(st, y, k) /\ EntOf(st, y, k).d)
  IN IF og # "null" THEN GetterVal(EntOf(st, og, k).g, x)
     ELSE IF od # "null" THEN EntOf(st, od, k).v ELSE "u"
Get(st, dv, x, k) ==
  IF Dead(st, dv, x) THEN "u"
  ELSE IF "Dev_GetterFirst" \in dv THEN GetAsIs(st, x, k) ELSE GetRef(st, x, k)

InChain(st, x, k) == \E y \in ChainSet(st, x) : HasEnt(st, y, k)
HasOwn(st, x, k) == HasEnt(st, x, k)
BoolV(b) == IF b THEN "true" ELSE "false"
ObsIn(st, dv, x, k) ==
  IF Dead(st, dv, x) THEN "!TypeError"
  ELSE IF "Dev_InOwnOnly" \in dv THEN BoolV(HasEnt(st, x, k) /\ EntOf(st, x, k).d)     \* vm.py IN: obj.has(key)
  ELSE BoolV(InChain(st, x, k))
ObsOwn(st, dv, x, k) == IF Dead(st, dv, x) THEN "false" ELSE BoolV(HasOwn(st, x, k))

\* own enumerable string keys, in order
RECURSIVE InsertByOrd(_, _)
InsertByOrd(sq, e) == IF sq = <<>> THEN <<e>>
                      ELSE IF e.ord < Head(sq).ord THEN <<e>> \o sq ELSE <<Head(sq)>> \o InsertByOrd(Tail(sq), e)
RECURSIVE SortByOrd(_)
SortByOrd(sq) == IF sq = <<>> THEN <<>> ELSE InsertByOrd(SortByOrd(Tail(sq)), Head(sq))
EnumEnts(st, dv, x) ==
  IF Dead(st, dv, x) THEN <<>>
  ELSE LET vis == SelectSeq(st.h[x].own, LAMBDA e : e.en \/ "Dev_CtorEnumerable" \in dv)
       IN IF "Dev_EnumSkipsAccessors" \in dv
          THEN SortByOrd(SelectSeq(vis, LAMBDA e : e.d))          \* the data table only, in its insertion order
          ELSE vis
EntVal(st, dv, x, e) == IF e.d THEN e.v ELSE Get(st, dv, x, e.k)
ObsKeys(st, dv, x)    == LET es == EnumEnts(st, dv, x) IN [j \in 1..Len(es) |-> "'" \o es[j].k]
ObsValues(st, dv, x)  == LET es == EnumEnts(st, dv, x) IN [j \in 1..Len(es) |-> EntVal(st, dv, x, es[j])]
ObsEntries(st, dv, x) == LET es == EnumEnts(st, dv, x)
                         IN [j \in 1..Len(es) |-> "['" \o es[j].k \o "," \o EntVal(st, dv, x, es[j]) \o "]"]
ObsProto(st, dv, x) == IF Dead(st, dv, x) THEN "null" ELSE IF st.h[x].proto = "null" THEN "null" ELSE "@" \o st.h[x].proto
InstanceOf(st, x, f) == st.fp[f] \in ChainSet(st, st.h[x].proto)
ObsInst(st, dv, x, f) == IF Dead(st, dv, x) THEN "false" ELSE BoolV(InstanceOf(st, x, f))
ObsTypeof(st, x) == IF IsFn(st, x) THEN "'function" ELSE "'object"

\* an observation: [o |-> kind, x |-> object, k |-> key / function, f |-> key form]
Ob(o, x, k, f) == [o |-> o, x |-> x, k |-> k, f |-> f]
\* the battery evaluated after a step, in a fixed order: BatteryOn for each of BatteryObjs, then BatteryGlob
ReadSeq == <<<<"a", "id">>, <<"a", "str">>, <<"b", "comp">>, <<"1", "num">>, <<"1", "str">>, <<"s", "id">>>>
KeySeq  == <<"a", "b", "1", "s">>
BatteryOn ==
  [j \in 1..6 |-> Ob("rd", "X", ReadSeq[j][1], ReadSeq[j][2])]
  \o [j \in 1..4 |-> Ob("in", "X", KeySeq[j], "")] \o [j \in 1..4 |-> Ob("own", "X", KeySeq[j], "")]
  \o <<Ob("keys", "X", "", ""), Ob("values", "X", "", ""), Ob("entries", "X", "", ""), Ob("forin", "X", "", ""),
       Ob("proto", "X", "", ""), Ob("typeof", "X", "", ""), Ob("inst", "X", "F", ""), Ob("inst", "X", "G", "")>>
BatteryObjs == <<"o1", "o2", "o3", "Fp", "Gp">>
BatteryGlob == <<Ob("fproto", "", "F", ""), Ob("fproto", "", "G", "")>>
Battery == [j \in 1..(Len(BatteryOn) * Len(BatteryObjs) + Len(BatteryGlob)) |->
              IF j <= Len(BatteryOn) * Len(BatteryObjs)
              THEN [BatteryOn[((j - 1) % Len(BatteryOn)) + 1] EXCEPT !.x = BatteryObjs[((j - 1) \div Len(BatteryOn)) + 1]]
              ELSE BatteryGlob[j - Len(BatteryOn) * Len(BatteryObjs)]]
ListObs == {"keys", "values", "entries", "forin"}
Observe(st, dv, ob) ==
  CASE ob.o = "rd"      -> <<Get(st, dv, ob.x, ob.k)>>
    [] ob.o = "in"      -> <<ObsIn(st, dv, ob.x, ob.k)>>
    [] ob.o = "own"     -> <<ObsOwn(st, dv, ob.x, ob.k)>>
    [] ob.o = "keys"    -> ObsKeys(st, dv, ob.x)
    [] ob.o = "forin"   -> ObsKeys(st, dv, ob.x)              \* own keys only (documented restriction)
    [] ob.o = "values"  -> ObsValues(st, dv, ob.x)
    [] ob.o = "entries" -> ObsEntries(st, dv, ob.x)
    [] ob.o = "proto"   -> <<ObsProto(st, dv, ob.x)>>
    [] ob.o = "inst"    -> <<ObsInst(st, dv, ob.x, ob.k)>>
    [] ob.o = "typeof"  -> <<ObsTypeof(st, ob.x)>>
    [] ob.o = "fproto"  -> <<"@" \o st.fp[ob.k]>>
Observable(st, ob) == ob.o = "fproto" \/ Alloc(st, ob.x)
\* key order: objects mixing integer-like and other keys are compared as sets (DESIGN 4.4(2))
SeqToBag(sq) == [e \in {sq[j] : j \in 1..Len(sq)} |-> Cardinality({j \in 1..Len(sq) : sq[j] = e})]
MixedKeys(st, dv, x) == LET ks == ObsKeys(st, dv, x) IN "'1" \in {ks[j] : j \in 1..Len(ks)} /\ Len(ks) > 1
SameObs(st, dv, ob, exp, act) ==
  IF ob.o \in ListObs /\ MixedKeys(st, dv, ob.x) THEN SeqToBag(exp) = SeqToBag(act) ELSE exp = act

\* ---------------------------------------------------------------------------------------------
\* operations.  op = [op, x, k, f, n, p]; Step returns [st, out] with out "ok" or "TypeError".
Op(o, x, k, f, n, p) == [op |-> o, x |-> x, k |-> k, f |-> f, n |-> n, p |-> p]
R(st, out) == [st |-> st, out |-> out]
WithOwn(st, x, own) == [st EXCEPT !.h[x].own = own]

SetData(st, x, k, v) ==                       \* create or update the data part of own property k
  LET own == st.h[x].own  j == IdxOf(own, k)
  IN IF j = 0 THEN [WithOwn(st, x, Append(own, Ent(k, TRUE, v, st.clk, 0, 0, TRUE))) EXCEPT !.clk = st.clk + 1]
     ELSE IF own[j].d THEN WithOwn(st, x, [own EXCEPT ![j].v = v])
     ELSE [WithOwn(st, x, [own EXCEPT ![j].d = TRUE, ![j].v = v, ![j].ord = st.clk]) EXCEPT !.clk = st.clk + 1]

PutRef(st, x, k, n) ==                        \* OrdinarySet, strict mode
  LET o == FirstWith(st, Chain(st, x), LAMBDA y : HasEnt(st, y, k))
  IN IF o = "null" THEN R(SetData(st, x, k, VNum(n)), "ok")
     ELSE LET e == EntOf(st, o, k)
          IN IF ~IsAcc(e) THEN R(SetData(st, x, k, VNum(n)), "ok")              \* data (writable): on the receiver
             ELSE IF e.st # 0 THEN R(SetData(st, x, "s", SetterStr(e.st, n)), "ok")   \* setter runs with the receiver
             ELSE R(st, "TypeError")                                              \* accessor without setter
PutAsIs(st, x, k, n) ==                       \* vm.py _set_property: any setter on the chain, else own data table
  LET o == FirstWith(st, Chain(st, x), LAMBDA y : HasEnt(st, y, k) /\ EntOf(st, y, k).st # 0)
  IN IF o # "null" THEN R(SetData(st, x, "s", SetterStr(EntOf(st, o, k).st, n)), "ok")
     ELSE R(SetData(st, x, k, VNum(n)), "ok")
Put(st, dv, x, k, n) ==
  IF Dead(st, dv, x) THEN R(st, "ok")
  ELSE IF "Dev_SetterFirst" \in dv THEN PutAsIs(st, x, k, n) ELSE PutRef(st, x, k, n)

Delete(st, dv, x, k) ==
  LET own == st.h[x].own  j == IdxOf(own, k)
  IN IF Dead(st, dv, x) \/ j = 0 THEN R(st, "ok")
     ELSE IF "Dev_DeleteKeepsAccessor" \in dv /\ IsAcc(own[j])                   \* values.py delete: data table only
          THEN R(WithOwn(st, x, [own EXCEPT ![j].d = FALSE, ![j].v = "u"]), "ok")
     ELSE R(WithOwn(st, x, RemoveAt(own, j)), "ok")

\* Object.defineProperty(x, k, {get | set | get,set | value, enumerable: true, configurable: true[, writable: true]})
\* literal accessors carry id 1, defineProperty accessors id 2
DefProp(st, dv, x, k, what, n) ==
  LET own == st.h[x].own  j == IdxOf(own, k)
      g2 == IF what \in {"get", "gs"} THEN 2 ELSE 0
      s2 == IF what \in {"set", "gs"} THEN 2 ELSE 0
      merge == "Dev_DefinePropMerge" \in dv                                     \* context.py define_property: tables updated separately
  IN IF Dead(st, dv, x) THEN R(st, "ok")
     ELSE IF what = "val"
       THEN IF merge THEN R(SetData(st, x, k, VNum(n)), "ok")
            ELSE IF j = 0 THEN R(SetData(st, x, k, VNum(n)), "ok")
            ELSE R(SetData(WithOwn(st, x, [own EXCEPT ![j].g = 0, ![j].st = 0]), x, k, VNum(n)), "ok")
     ELSE IF j = 0 THEN R(WithOwn(st, x, Append(own, Ent(k, FALSE, "u", 0, g2, s2, TRUE))), "ok")
     ELSE LET e == own[j]
              keepd == merge /\ e.d
              ng == IF g2 # 0 THEN g2 ELSE IF e.d /\ ~merge THEN 0 ELSE e.g
              ns == IF s2 # 0 THEN s2 ELSE IF e.d /\ ~merge THEN 0 ELSE e.st
          IN R(WithOwn(st, x, [own EXCEPT ![j].d = keepd, ![j].v = IF keepd THEN e.v ELSE "u", ![j].g = ng, ![j].st = ns]), "ok")

SetProto(st, dv, x, p) ==
  IF Dead(st, dv, x) \/ st.h[x].proto = p THEN R(st, "ok")
  ELSE IF p # "null" /\ x \in ChainSet(st, p) /\ "Dev_ProtoCycle" \notin dv THEN R(st, "TypeError")
  ELSE R([st EXCEPT !.h[x].proto = p], "ok")

AssignFnProto(st, dv, f, p) ==
  IF "Dev_FnProtoAssign" \in dv THEN R(st, "ok") ELSE R([st EXCEPT !.fp[f] = p], "ok")

LitOwn(st, dv, variant, n) ==
  LET c == st.clk IN
  CASE variant = "empty"    -> <<>>
    [] variant = "data_a"   -> <<Ent("a", TRUE, VNum(n), c, 0, 0, TRUE)>>
    [] variant = "data_1"   -> <<Ent("1", TRUE, VNum(n), c, 0, 0, TRUE)>>
    [] variant = "two"      -> <<Ent("b", TRUE, VNum(n), c, 0, 0, TRUE), Ent("a", TRUE, VNum(n), c + 1, 0, 0, TRUE)>>
    [] variant = "getter_a" -> <<Ent("a", FALSE, "u", 0, 1, 0, TRUE)>>
    [] variant = "getset_a" -> <<Ent("a", FALSE, "u", 0, 1, 1, TRUE)>>
    [] variant = "set_b"    -> <<Ent("b", FALSE, "u", 0, 0, 1, TRUE)>>
    [] variant = "comp_b"   -> <<Ent(IF "Dev_ComputedKeyLiteral" \in dv THEN "kb" ELSE "b", TRUE, VNum(n), c, 0, 0, TRUE)>>
    [] variant = "proto"    -> <<Ent("a", TRUE, VNum(n), c, 0, 0, TRUE)>>
    [] variant = "protogs"  -> <<Ent("a", FALSE, "u", 0, 1, 1, TRUE)>>                   \* {__proto__: p, get a(){..}, set a(v){..}}
LitVariants == {"empty", "data_a", "data_1", "two", "getter_a", "getset_a", "set_b", "comp_b"}

NewObj(st, x, kind, p, own) == [st EXCEPT !.h[x] = [kind |-> kind, proto |-> p, own |-> own], !.clk = st.clk + 2]

Construct(st, dv, x, f, n) ==                  \* x = new F(v) / new G(v);  F(v){ if (v !== undefined) this.b = v }  G(v){ F.call(this, v) }
  LET s1 == NewObj(st, x, "plain", st.fp[f], <<>>)
  IN IF n = 0 THEN R(s1, "ok")
     ELSE LET r == Put(s1, dv, x, "b", n) IN IF r.out = "ok" THEN r ELSE R(st, r.out)

Step(st, dv, o) ==
  CASE o.op = "lit"      -> R(NewObj(st, o.x, "plain", IF o.f \in {"proto", "protogs"} THEN o.p ELSE "OP", LitOwn(st, dv, o.f, o.n)), "ok")
    [] o.op = "create"   -> R(NewObj(st, o.x, "plain", o.p, <<>>), "ok")
    [] o.op = "new"      -> Construct(st, dv, o.x, o.f, o.n)
    [] o.op = "func"     -> R(NewObj(st, o.x, "function", "FnP", <<>>), "ok")
    [] o.op = "set"      -> Put(st, dv, o.x, o.k, o.n)
    [] o.op = "del"      -> Delete(st, dv, o.x, o.k)
    [] o.op = "def"      -> DefProp(st, dv, o.x, o.k, o.f, o.n)
    [] o.op = "setproto" -> SetProto(st, dv, o.x, o.p)
    [] o.op = "fproto"   -> AssignFnProto(st, dv, o.f, o.p)

\* ---- the instantiated alphabet at step number n (the value written by step n is n) -----------
\* "full" alphabet, and a "core" sub-alphabet (one form per key, fewer literal shapes) for the deepest exhaustive level
SetForms(c) == IF c THEN {<<"a", "id">>, <<"1", "num">>}
               ELSE {<<"a", "id">>, <<"a", "str">>, <<"b", "comp">>, <<"b", "id">>, <<"1", "num">>, <<"1", "str">>}
DelForms(c) == IF c THEN {<<"a", "id">>} ELSE {<<"a", "id">>, <<"b", "comp">>, <<"1", "num">>, <<"a", "str">>}
DefForms(c) == IF c THEN {<<"a", "get">>, <<"a", "set">>, <<"a", "val">>}
               ELSE {<<"a", "get">>, <<"a", "set">>, <<"b", "gs">>, <<"a", "val">>, <<"1", "get">>, <<"b", "val">>}
LitForms(c) == IF c THEN {"empty", "data_a", "getset_a"} ELSE LitVariants
Recv(st)     == {x \in Touch : Alloc(st, x)}
PlainObjs(st) == {x \in Touch : st.h[x].kind = "plain"}
CreationOps(st, n, c) ==
  LET x == NextFree(st) IN
  IF x = "none" THEN {}
  ELSE {Op("lit", x, "", v, n, "") : v \in LitForms(c)}
       \cup {Op("lit", x, "", "proto", n, p) : p \in PlainObjs(st)}
       \cup {Op("lit", x, "", "protogs", 0, p) : p \in PlainObjs(st)}
       \cup {Op("create", x, "", "", 0, p) : p \in PlainObjs(st) \cup {"null"}}
       \cup {Op("new", x, "", f, m, "") : f \in Fns, m \in IF c THEN {n} ELSE {0, n}}
       \cup {Op("func", x, "", "", 0, "")}
MutationOps(st, n, c) ==
  {Op("set", x, kf[1], kf[2], n, "") : x \in Recv(st), kf \in SetForms(c)}
  \cup (IF c THEN {} ELSE {Op("set", x, "a", "id", 0, "") : x \in Recv(st)})          \* o.a = undefined
  \cup {Op("del", x, kf[1], kf[2], 0, "") : x \in Recv(st), kf \in DelForms(c)}
  \cup {Op("def", x, kf[1], kf[2], n, "") : x \in Recv(st), kf \in DefForms(c)}
  \cup {Op("setproto", x, "", "", 0, p) : x \in Recv(st), p \in PlainObjs(st) \cup {"null"}}
  \cup {Op("fproto", "", "", f, 0, p) : f \in Fns, p \in PlainObjs(st)}
AlphabetC(st, n, c) == CreationOps(st, n, c) \cup MutationOps(st, n, c)
Alphabet(st, n) == AlphabetC(st, n, FALSE)

\* may this operation be applied in reference state st?  (histories from other generators are cut at the first one that may not)
Applicable(st, o, n) == o \in Alphabet(st, n)

\* =============================================================================================
\* Part 2: the state machine
VARIABLES m_st, m_hist, m_prev        \* m_prev: the state before the last step (for the frame property)
CONSTANT CoreFrom                     \* histories use the core alphabet from this step number on (0 = never)
m_vars == <<m_st, m_hist, m_prev>>

MInit == m_st = State0 /\ m_hist = <<>> /\ m_prev = State0
MNext == \E o \in AlphabetC(m_st, Len(m_hist) + 1, CoreFrom # 0 /\ Len(m_hist) + 1 >= CoreFrom) :
           /\ m_st' = Step(m_st, {}, o).st
           /\ m_hist' = Append(m_hist, o)
           /\ m_prev' = m_st

\* ---- invariants of the reference model --------------------------------------------------------
TypeInv(st) ==
  /\ \A x \in Ids : /\ st.h[x].kind \in {"none", "plain", "function"}
                    /\ st.h[x].proto \in Ids \cup {"null"}
                    /\ (st.h[x].proto # "null" => Alloc(st, st.h[x].proto))
                    /\ \A j \in 1..Len(st.h[x].own) :
                         LET e == st.h[x].own[j] IN e.d <=> ~IsAcc(e)               \* data xor accessor
                    /\ \A j, m \in 1..Len(st.h[x].own) : j # m => st.h[x].own[j].k # st.h[x].own[m].k
  /\ \A f \in Fns : Alloc(st, st.fp[f])
Acyclic(st) == \A x \in Ids : Alloc(st, x) => ~Cyclic(st, x) /\ x \notin ChainSet(st, st.h[x].proto)
Agreement(st) ==
  \A x \in Touch : Alloc(st, x) =>
    /\ \A k \in Keys :
         /\ (ObsIn(st, {}, x, k) = "true") <=> (\E y \in ChainSet(st, x) : ObsOwn(st, {}, y, k) = "true")
         /\ (ObsOwn(st, {}, x, k) = "true") => (ObsIn(st, {}, x, k) = "true")
         /\ (ObsIn(st, {}, x, k) = "false") => Get(st, {}, x, k) = "u"
         /\ (ObsOwn(st, {}, x, k) = "true") <=> ("'" \o k) \in {ObsKeys(st, {}, x)[j] : j \in 1..Len(ObsKeys(st, {}, x))}
         \* a data property found first on the chain is what a read returns; an accessor runs with the receiver
         /\ LET o == FirstWith(st, Chain(st, x), LAMBDA y : HasEnt(st, y, k))
            IN o # "null" =>
                 LET e == EntOf(st, o, k)
                 IN /\ (e.d => Get(st, {}, x, k) = e.v)
                    /\ (e.g # 0 => Get(st, {}, x, k) = GetterVal(e.g, x))
    /\ Len(ObsValues(st, {}, x)) = Len(ObsKeys(st, {}, x))
    /\ Len(ObsEntries(st, {}, x)) = Len(ObsKeys(st, {}, x))
    /\ \A j \in 1..Len(ObsKeys(st, {}, x)) :
         ObsEntries(st, {}, x)[j] = "[" \o ObsKeys(st, {}, x)[j] \o "," \o ObsValues(st, {}, x)[j] \o "]"
    /\ \A f \in Fns : (ObsInst(st, {}, x, f) = "true") <=> (\E j \in 2..Len(Chain(st, x)) : Chain(st, x)[j] = st.fp[f])
ModelInv == TypeInv(m_st) /\ Acyclic(m_st) /\ Agreement(m_st)

\* ---- frame condition: what a step may change -----------------------------------------------------
LastOp == m_hist[Len(m_hist)]
Frame ==
  m_hist = <<>> \/
  LET o == LastOp IN
  /\ (o.op \in {"set", "del", "def"} =>
        /\ \A y \in Ids \ {o.x} : m_st.h[y] = m_prev.h[y]                    \* writes and deletes touch only the receiver
        /\ m_st.h[o.x].proto = m_prev.h[o.x].proto /\ m_st.fp = m_prev.fp
        /\ \A j \in 1..Len(m_prev.h[o.x].own) :                               \* and on the receiver only the key (or the setter's shadow key)
             LET e == m_prev.h[o.x].own[j] IN e.k \notin {o.k, "s"} => \E m \in 1..Len(m_st.h[o.x].own) : m_st.h[o.x].own[m] = e)
  /\ (o.op = "setproto" => /\ \A y \in Ids \ {o.x} : m_st.h[y] = m_prev.h[y]
                           /\ m_st.h[o.x].own = m_prev.h[o.x].own /\ m_st.fp = m_prev.fp)
  /\ (o.op = "fproto" => m_st.h = m_prev.h /\ \A f \in Fns \ {o.f} : m_st.fp[f] = m_prev.fp[f])
  /\ (o.op \in {"lit", "create", "new", "func"} => /\ \A y \in Ids \ {o.x} : m_st.h[y] = m_prev.h[y]
                                                     /\ m_st.fp = m_prev.fp)
=============================================================================
