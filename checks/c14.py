"""C14 - program size never changes meaning (DESIGN 5/C14)."""
import os, json
from harness import tlc, engine
from harness.common import Machinery, workdir, write_ndjson

ENC_CFG = """CONSTANTS B = 4
 MaxLen = %d
 Masking = %s
SPECIFICATION Spec
INVARIANT RoundTrip
INVARIANT TargetsValid
INVARIANT TypeOK
CHECK_DEADLOCK FALSE
"""
ENUM_CFG = "INIT EnumInit\nNEXT EnumNext\nCONSTRAINT EnumEmit\nCHECK_DEADLOCK FALSE\n"
JUDGE_CFG = "INIT JudgeInit\nNEXT JudgeNext\nCHECK_DEADLOCK FALSE\n"
STATIC_CFG = "INIT StaticInit\nNEXT JudgeNext\nCHECK_DEADLOCK FALSE\n"


def run(rep):
    quick = rep.tier == "quick"
    # 1. design level: emitter/decoder round trip across every boundary (small byte base), exhaustive
    res = tlc.run(rep.pid, "Encoding", ENC_CFG % (5 if quick else 6, "FALSE"), timeout=1200, tag="enc", coverage=True)
    rep.add_tlc("Encoding(B=4)", res)
    # sanity of the model itself: the pre-fix emitter (masking) must violate RoundTrip, else the invariant is vacuous
    bad = tlc.run(rep.pid, "Encoding", ENC_CFG % (4, "TRUE"), timeout=600, tag="enc_mask")
    if "RoundTrip" not in bad.violated:
        raise Machinery("Encoding.RoundTrip does not detect operand masking: vacuous invariant")
    rep.notes["masking_detected_by_model"] = True
    # 2. enumerate (template, n)
    en = tlc.run(rep.pid, "C14", ENUM_CFG, env={"TIER": rep.tier}, timeout=600, tag="enum")
    rep.add_tlc("C14.Enum", en)
    seen, cases = set(), []
    for c in en.records:
        k = (c["t"], c["n"])
        if k in seen:
            continue
        seen.add(k)
        cases.append({"id": len(cases), "t": c["t"], "n": c["n"], "export": c["n"] <= 20000})
    if len(cases) < 100:
        raise Machinery("too few cases: %d" % len(cases))
    rep.spaces.append({"space": "template x n across 8-bit and 16-bit encoding boundaries", "cases": len(cases), "complete": True})
    cases.sort(key=lambda c: -c["n"])        # big programs first (they dominate the wall time)
    allc = cases + [{"id": len(cases), "kind": "tables"}]
    results = engine.run_cases(rep.pid, allc, driver="checks.c14_driver:driver", timeout=3000)
    tables = [r for r in results if "tables" in r]
    if len(tables) != 1:
        raise Machinery("no decoder tables")
    obs = [r for r in results if "tables" not in r]
    recs = [{"id": r["id"], "t": r["t"], "n": r["n"], "out": {"o": r["out"]["o"], "v": r["out"]["v"]},
             "started": r["started"], "msglen": r["msglen"]} for r in obs]
    verdicts, st, tr, _ = tlc.judge(rep.pid, "C14", recs, JUDGE_CFG, shards=4)
    rep.add_judge(len(recs), st, tr)
    byid = {r["id"]: r for r in obs}
    refused = 0
    for v in verdicts:
        r = byid[v["id"]]
        name = "%s(n=%d)" % (r["t"], r["n"])
        if v["v"] == "pass":
            if r["out"]["o"] != "value":
                refused += 1
            if r["n"] in (255, 256, 8192):
                rep.sample({"case": name, "outcome": r["out"]["o"], "info": r["out"].get("info", "")[:80]}, limit=8)
            continue
        rep.mismatch(name, {"verdict": v["v"], "expected": v["exp"], "actual": r["out"], "started": r["started"]})
    rep.notes["refused_up_front"] = refused
    rep.notes["ran_to_closed_form"] = len(recs) - refused - len(rep.violations)
    # 3. static facts of the real bytecode: decoder tables agree, jump targets valid
    if tables[0]["tables"] is None:
        # not a verdict about the engine: the extraction (by ast) did not recognise the interpreter loops any more
        rep.notes["static_half"] = "skipped: decoder tables not extractable from vm.py (%s)" % tables[0].get("why", "")
        rep.assumptions.append("static half (decoder tables agree, jump targets are instruction starts) NOT run on this tree: " + tables[0].get("why", ""))
        rep.exhaustive = True
        rep.evaluations = len(recs)
        return
    wd = workdir(rep.pid, "static")
    tpath = os.path.join(wd, "tables.json")
    with open(tpath, "w") as f:
        json.dump(tables[0]["tables"], f)
    funcs = []
    for r in obs:
        for f in r.get("funcs", []):
            funcs.append({"id": "%s(n=%d)#f%d" % (r["t"], r["n"], f["fid"]), "nbytes": f["nbytes"],
                          "starts": f["starts"], "jumps": f["jumps"]})
    if not funcs:
        raise Machinery("no bytecode exported")
    sv, st, tr, _ = tlc.judge(rep.pid, "C14", funcs, STATIC_CFG, shards=8, env={"TABLES_FILE": tpath},
                              tag="static_judge", file_env="FUNCS_FILE")
    rep.add_judge(len(funcs), st, tr)
    for v in sv:
        if not v["tables"]:
            rep.mismatch("decoder-tables", {"verdict": "decoder tables of VM._execute, VM._call_callback and the emitter disagree",
                                           "tables": tables[0]["tables"]})
            break
    for v in sv:
        if not v["targets"]:
            rep.mismatch(v["id"], {"verdict": "jump target is not an instruction start"})
    rep.exhaustive = True
    rep.evaluations = len(recs) + len(funcs)
    rep.notes["functions_checked"] = len(funcs)
    rep.assumptions += ["closed forms in C14.tla match the templates rendered by checks/c14_driver.py (each template is run at n=1,2,50 where both sides are trivially checkable)",
                        "a refusal counts only if nothing of the program ran (its first statement logs) and it is a JSError/JSSyntaxError with a message"]
